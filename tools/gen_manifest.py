#!/usr/bin/env python3
"""Regenerates /verif/MANIFEST.json from the table below (kept in one place so that it stays valid)."""
import json
import os

HERE = os.path.dirname(os.path.dirname(os.path.abspath(__file__)))

# id -> (engine, technique, level text, level note, design ref)
CHECKS = {
    "C07": ("XH", "CrossHair-driven enumeration (z3 choice variables for the first adjacency row / component size and matching set) with native sweeps over all dependency graphs, "
            "all non-decreasing pin assignments, all parent tag subsets; stub git repositories; oracle from the statement",
            "bounded exhaustive exploration with exhaustion certificate: (a) all dependency graphs over <= 4 repositories incl. cycles; (b) linear component of 2-4 builds x parent families "
            "(linear 1-4, release + master) x every valid pin assignment x every tag subset; (c) component histories with merges (fork-merge in both parent orders, side line) "
            "x parent families x reachability-monotone pin assignments x tag subsets; (d) parent histories with a fork-merge inside one branch",
            "parent merges limited to one fork-merge inside a branch; reporting for a branch whose first shipping build belongs to a lower-sorted branch is not asserted", "DESIGN.md 3/C07"),
    "C06": ("XH", "CrossHair-driven enumeration of commit-graph shapes and branch-head positions (z3 choice variables) with native sweeps over ALL placements of build tags and matching messages; "
            "stub git repository; reachability oracle from the statement; BranchName order checked symbolically for all non-negative ints",
            "bounded exhaustive exploration with exhaustion certificate: 17 graph shapes of <= 6 commits x every release-head position x all 2^n tag subsets x all matching subsets x 3 commit spacings (60 s / 2 days / 4.6 days); "
            "symbolic (unbounded ints) total-order check of branch names incl. prefix-first for names of different length",
            "git repository stubbed in memory; commit times strictly increasing along history", "DESIGN.md 3/C06"),
    "C10": ("XH", "CrossHair-driven enumeration of rendering histories (z3 choice variables for the first step, native sweep of the rest) over long-lived printable objects, with id() as seen by ak.ppobj "
            "replaced by an adversarial environment stub constrained by CPython's contract; compared with fresh objects / no_color twins through an independent SGR stripper",
            "bounded exhaustive exploration: histories of <= 2 steps exhaustively (<= 3-4 partially) over 6 object kinds (incl. the git history report) x 3 configurations x no_color x explicit/global route; "
            "configurations created and discarded between steps; id() may hand a new palette the id of any discarded one; every result also consumed line by line across the next step",
            "id() stub is the environment model (replay first tries real CPython address reuse, then the stub); console help only for layout-vs-colors", "DESIGN.md 3/C10"),
    "C18": ("XH", "CrossHair-driven enumeration (z3 choice variables: column permutation, leading blank rows, table offset, end rule, ladder, missing optional column) with native sweeps over row contents; "
            "stub worksheet; oracle = converter applied at the reported origin + independent reference locator + filled-in twin for ladder sheets",
            "bounded exhaustive exploration with exhaustion certificate over 6 rule sets (plain, optional, external, ranged dict/set, two classes per row), <= 5-6 columns in sampled-permutation order, "
            "explicit layouts with untitled/unknown columns next to the ranged group, <= 3 data rows, table offsets 0/1/23 columns, ladder blanks None or whitespace", "structural property: the solver enumerates; worksheet stubbed by a cell grid", "DESIGN.md 3/C18"),
    "C11": ("XH", "CrossHair-driven enumeration (z3 choice variables for container skeleton / nesting offset) with native sweeps over every string length around the wrapping thresholds; "
            "json.loads / ast.literal_eval read-back",
            "bounded exhaustive exploration with exhaustion certificate: 10 container skeletons x nesting offsets 0/2/4 x every length 0..215 of the varying element, threshold-adjacent length pairs, "
            "long lists/dicts of 1-60 elements (per-line wrapping), all triples of simple values",
            "lengths are swept concretely (string repetition and the C readers cannot stay symbolic); floats from a fixed finite set", "DESIGN.md 3/C11"),
    "C05": ("XH", "CrossHair-driven exhaustive enumeration (z3 choice variables for first item / trailing delimiter / separator style, native sweep of the remaining items); real parser with default cleanup",
            "bounded exhaustive exploration with exhaustion certificate: all 8 legal ListProds option combinations, 4 MapProds combinations and ProdSequence over containers of <= 3 items "
            "from a pool of nested values (depth 3, repeated keys), 4 separator styles, final delimiter and absent container",
            "structural property: the solver enumerates; nullable list items outside the claim", "DESIGN.md 3/C05"),
    "C04": ("XH", "CrossHair symbolic execution of the real tokenizer/parser/get_orig_text with the regex engine stubbed (symbolic match ends and token kinds, symbolic line strings); "
            "solver-enumerated concrete texts through the real regex as second front end and as replay",
            "bounded model checking: all line lengths, token boundaries, blank lines, skipped text and span closings within <= 3 lines / <= 3-5 matcher calls (symbolic), "
            "plus every concrete text of <= 6 (quick) / 7 (thorough) symbols over an 8-symbol alphabet through the real `re` tokenizer (str and list-of-lines input; get_orig_text on both forms), plus texts of <= 4 (5) symbols over white space that splitlines() breaks on",
            "regex engine is an environment stub in the symbolic part (contract: match starts at the requested column, non-empty); stub spaces may not exhaust in quick (reported)",
            "DESIGN.md 3/C04"),
    "C01": ("XH", "CrossHair-driven exhaustive enumeration (z3 choice variables) of grammar-family holes; real parser on ALL token strings up to the length bound, independent derivation checker",
            "bounded exhaustive exploration with exhaustion certificate: every instantiation of 28 shape families (alternatives as written and reversed) x both smart_factorization settings x all token strings of length <= 4 (quick) / 6 (thorough); every skip_tokens choice x all texts of <= 6 (7) symbols",
            "structural property: the solver enumerates; step budget per parse; real tokenizer with synonym and keyword terminals", "DESIGN.md 3/C01"),
    "C02": ("XH", "as C01, with independent FIRST/FOLLOW/predict and fixpoint recogniser as oracles",
            "bounded exhaustive exploration: for every family grammar that is LL(1) as written or whose table the parser reports conflict-free, acceptance == sentence-hood for all strings up to the bound, "
            "unique valid tree, identical for both smart settings, is_ambiguous() unchanged by parsing", "as C01; oracles independent of the implementation", "DESIGN.md 3/C02"),
    "C03": ("XH", "as C01 plus z3-chosen symbol-name permutations; cycle oracle over the nullable-prefix graph; step-budgeted real parse loop",
            "bounded exhaustive exploration: GrammarIsRecursive <=> cycle, for every family grammar under 7 name assignments (all alphabetical orders of start/nullable/recursive symbols); accepted grammars terminate on all strings up to the bound",
            "non-termination is observed as exceeding 20000 parser steps on inputs of <= 5 tokens", "DESIGN.md 3/C03"),
    "C14": ("XH", "CrossHair-driven exhaustive enumeration (z3 choice variables) of description sets x splits over explicit config / components x registration orders; "
            "real ColorsConfig/Palette code vs an order-free reference resolver",
            "bounded exhaustive exploration with exhaustion certificate over 3 ids (incl. dotted, built-in parent, unknown parent, color 0), all 6 registration orders, explicit-wins and no_color twins; "
            "observed through get_color, palettes obtained before/after registrations and the synced global palette",
            "structural property: the solver enumerates; formatters compared through emitted text",
            "DESIGN.md 3/C14"),
    "C16": ("BCMC+P2S+XH", "bounded model checking of thread interleavings over the real bytecode (schedule = symbolic z3 array, shared counter/lock versions per step), "
            "AST->z3 for the id structure, CrossHair enumeration for the sequential contract; sat schedules replayed with real threads via sys.monitoring",
            "bounded model checking: for each (threads, calls) configuration z3 shows that NO interleaving at instruction granularity and NO initial counter value yields a duplicate, a gap or a deadlock (unsat), "
            "with a sat reachability twin; the id text is shown uniquely decodable for all numbers",
            "locks modelled as owner variables (one per lock object; a lock created on first use is a shared lock variable with predicated steps); thread-local instructions commute (partial-order reduction); GIL build",
            "DESIGN.md 3/C16"),
    "C17": ("XH", "CrossHair-driven exhaustive enumeration (z3 choice variables) of wrapper chains x request arguments x derivation histories; real connection classes against a recording opener, "
            "compared with a reference request builder",
            "bounded exhaustive exploration with exhaustion certificate: chains of <= 3 wrappers, a covering set of argument combinations (full product in thorough), histories of <= 3 derivation steps; "
            "non-interference asserted by re-sending through every earlier connection/caller after each step",
            "structural property: the solver enumerates; urllib Request trusted; opener stubbed by a recorder",
            "DESIGN.md 3/C17"),
    "C15": ("XH", "CrossHair symbolic execution of the real filter builder + SqlMethod over symbolic operands/table cells, mini 3VL evaluator of the emitted SQL as DB stub, replay on real sqlite3",
            "bounded model checking: per condition-tree shape, ALL int operands/cells and all strings up to the length bound are covered by exhausted path trees; "
            "text-independence, placeholder/parameter agreement and row selection are asserted on every path; counterexamples are replayed on real in-memory sqlite3",
            "mini evaluator is a model of SQLite for the emitted fragment (cross-checked against sqlite3 on realised values each run); shapes bounded (<= 3 filters)",
            "DESIGN.md 3/C15"),
    "C12": ("XH", "CrossHair symbolic execution of the real table renderer: width bounds and record limits are symbolic (unbounded) ints, layout structure concrete per shard; "
            "an independent line-by-line checker of the printed text is the oracle",
            "bounded model checking: per (column kinds, record set, header/footer) shard, every path of the real renderer over ALL maximum widths and ALL record limits is explored "
            "(exhausted for most shards, the rest reported); thorough adds enumerated 1-3 column spaces",
            "CrossHair models trusted for passes; enum cell texts per documented format; structure bounded (<=3 columns, <=6 records)",
            "DESIGN.md 3/C12"),
    "C13": ("XH", "CrossHair-driven exhaustive enumeration (z3 choice variables) of column descriptions x limits x record sets x life stages; real PPTable code executed per case",
            "bounded exhaustive exploration with exhaustion certificate: every 1-column description within the width bound and 2-3 column combinations of representative descriptors, "
            "at every life stage (incl. limits changed after printing and read back before the next printing); the reported fmt string is fed to the setter and the constructor and all renderings compared",
            "structural property: the solver enumerates (widths are rendered into the format string, so they cannot stay symbolic); bounded sizes",
            "DESIGN.md 3/C13"),
    "C09": ("P2S+RX+XH", "AST->z3 execution of the real sequence builder (symbolic color ints/bools), reference SGR interpreter forking on the same solver, "
            "z3 regex inclusion against the live strip pattern; CrossHair enumeration through the real ColorFmt/ColorBytes/CHText objects",
            "bounded model checking: for ALL int color codes / (r,g,b) components / gray shades and all effect combinations, every path of the real source is "
            "discharged by z3 (accept/reject contract, terminal state after prefix/suffix, membership of the emitted language in the strip pattern, self-delimiting lemma); "
            "end-to-end object behaviour enumerated over boundary values",
            "reference SGR interpreter is the terminal model; str(n) over-approximated by canonical decimals in regex queries (sound for inclusion); re.sub completeness assumed",
            "DESIGN.md 3/C09"),
    "C19": ("XH", "CrossHair-driven exhaustive enumeration (z3 choice variables) of all parent declarations over N commands; real argparse-based code executed per graph",
            "bounded exhaustive exploration with an exhaustion certificate: every acyclic parent declaration over N<=4 (quick) / N<=5 (thorough) commands, every graph under 7 name assignments (the set of parent names is iterated in hash order), every option/command pair checked against the transitive-closure oracle",
            "structural property: the solver only enumerates; argparse (stdlib) trusted; stderr captured",
            "DESIGN.md 3/C19"),
    "C08": ("XH", "CrossHair symbolic execution of the real CHText code vs a list-of-(char,color) reference model; z3 per path, spaces exhausted",
            "bounded model checking: per canonical chunk layout, slice bounds are unbounded symbolic ints and the path tree is exhausted (all ints covered); "
            "construction routes / join / format / 2-operation sequences are exhausted over stated small layouts; counterexamples replayed on CPython",
            "CrossHair's int/str/list models are trusted for passes (alarms are replayed concretely); chunk contents are concrete letters (code inspects only lengths/colors)",
            "DESIGN.md 3/C08"),
    "C20": ("P2S+XH", "AST->z3 symbolic execution of the real kernels (mathematical ints), unsat per path; CrossHair for the str front end",
            "bounded model checking with an explicit bound: all 2**128 uuid values and all 22-character strings over all code points are covered "
            "by z3 (unsat on every path of the real source translated at run time); other lengths up to the stated bound; strings around the 2**128 boundary through the real uuid.UUID; call histories (every ordered pair of digit counts encoded one after the other in one process, against a reference encoder); counterexamples replayed on the real functions",
            "z3 Int == Python int; uuid.UUID stubbed by its documented contract (validated concretely each run); translator validated on the repo's test vector and boundary values each run",
            "DESIGN.md 3/C20"),
}

NOT_APPLICABLE = {
}

ALL = [f"C{i:02d}" for i in range(1, 21)]
PENDING_REASON = "check not built yet in this round (planned, see DESIGN.md section 3); not claimed until its command exists and passes"


def main():
    checks = []
    for pid in ALL:
        if pid not in CHECKS:
            continue
        eng, tech, text, note, ref = CHECKS[pid]
        checks.append({
            "property_id": pid,
            "quick_cmd": f"./check {pid} --tier quick",
            "thorough_cmd": f"./check {pid} --tier thorough",
            "evidence_file": f"/verif/evidence/{pid}.json",
            "replay_cmd_template": f"./check {pid} --replay {{path}}",
            "engine": eng,
            "level_claimed": {"category": "model_checking", "text": text, "design_ref": ref},
            "level_note": note,
            "technique": tech,
        })
    na = []
    for pid in ALL:
        if pid in CHECKS:
            continue
        na.append({"property_id": pid, "reason": NOT_APPLICABLE.get(pid, PENDING_REASON)})
    m = {
        "version": 1,
        "setup_cmd": "sh ./setup.sh",
        "hooks": {
            "guard": "AK_PY_VERIF",
            "enable": "no source hooks are needed: all instrumentation is harness-side (checks export AK_PY_VERIF=1 for uniformity; /repo contains no code guarded by it)",
            "baseline_off_cmd": "cd /repo && /venv/bin/python -m pytest -ra -q -p no:cacheprovider --timeout=900 --continue-on-collection-errors",
            "source_commits": [],
            "add_only": True,
        },
        "engines": [
            {"name": "XH", "path": "vf/xh.py", "serves_properties": [p for p in ALL if p in CHECKS and "XH" in CHECKS[p][0]],
             "kind_free_text": "CrossHair 0.0.110 used as a library: symbolic execution of the real Python functions, z3 per path, own path loop with exhaustion certificate"},
            {"name": "BCMC", "path": "vf/bcmc.py", "serves_properties": [p for p in ALL if p in CHECKS and "BCMC" in CHECKS[p][0]],
             "kind_free_text": "bytecode (dis) -> per-thread step lists -> z3 bounded model checking of all interleavings; replay through sys.monitoring instruction events"},
            {"name": "RX", "path": "vf/rx.py", "serves_properties": [p for p in ALL if p in CHECKS and "RX" in CHECKS[p][0]],
             "kind_free_text": "re pattern (parsed by the stdlib's own parser) -> z3 regular expression, language inclusion queries"},
            {"name": "P2S", "path": "vf/p2s.py", "serves_properties": [p for p in ALL if p in CHECKS and "P2S" in CHECKS[p][0]],
             "kind_free_text": "Python-AST -> z3 forking symbolic interpreter for leaf kernels (source re-read with inspect on every run)"},
        ],
        "checks": checks,
        "not_applicable": na,
        "notes": "Every check: ./check <ID> --tier quick|thorough (cwd /verif). Exit 0 held / 1 VIOLATION (replayed on the real code) / 2 harness error or inconclusive engine failure. See DESIGN.md.",
    }
    with open(os.path.join(HERE, "MANIFEST.json"), "w") as f:
        json.dump(m, f, indent=1)
    print("wrote MANIFEST.json:", len(checks), "checks,", len(na), "not claimed")


if __name__ == "__main__":
    main()
