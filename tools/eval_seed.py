#!/usr/bin/env python3
"""Confirm a seeded change and run the property's check against it.

usage: tools/eval_seed.py <seed_dir> <PROPERTY_ID> <seed_name> [--tier quick] [--also C02,C03]

1. scratch worktree of /repo under /tmp: test-suite passes with the patch; demo exits 1 with it and 0 without it;
2. apply the patch to /repo, run ./check <ID>, undo it straight afterwards (git checkout -- .);
3. store /verif/seeded/<seed_name>/{patch.diff, demo.py, notes.md, meta.json}.
Never commits anything in /repo.
"""
import json
import os
import re
import shutil
import subprocess
import sys
import time

VERIF = os.path.dirname(os.path.dirname(os.path.abspath(__file__)))
REPO = "/repo"


def sh(cmd, cwd=None, timeout=3600):
    env = dict(os.environ)
    if cwd and cwd.startswith("/tmp/seedwt_"):
        env["PYTHONPATH"] = cwd            # demos must import the scratch worktree's package, not the editable install
    env["VERIF_EVIDENCE_DIR"] = "/tmp/w/ev_seed"      # keep the committed evidence (clean tree) untouched
    p = subprocess.run(cmd, shell=True, cwd=cwd, capture_output=True, text=True, timeout=timeout, env=env)
    return p.returncode, p.stdout + p.stderr


def main():
    seed_dir, pid, name = sys.argv[1], sys.argv[2], sys.argv[3]
    tier = "quick"
    also = []
    for i, a in enumerate(sys.argv):
        if a == "--tier":
            tier = sys.argv[i + 1]
        if a == "--also":
            also = sys.argv[i + 1].split(",")
    patch = os.path.join(seed_dir, "patch.diff")
    demo = os.path.join(seed_dir, "demo.py")
    meta = {"property": pid, "seed": name, "source_dir": seed_dir, "ran": []}
    # 0. /repo must be clean
    rc, out = sh("git status --porcelain --untracked-files=no", REPO)
    if out.strip():
        print("REPO NOT CLEAN", out)
        return 2
    wt = f"/tmp/seedwt_{name}_{os.getpid()}"
    sh(f"git worktree add -q --detach {wt} HEAD", REPO)
    try:
        rc, out = sh(f"/venv/bin/python {demo}", wt, 600)
        meta["demo_without_patch_rc"] = rc
        rc, out = sh(f"git apply {patch}", wt)
        if rc != 0:
            print("PATCH DOES NOT APPLY", out)
            meta["applies"] = False
            return 2
        meta["applies"] = True
        rc, out = sh("/venv/bin/python -m pytest -q -p no:cacheprovider --timeout=900 tests", wt, 1800)
        meta["tests_with_patch_rc"] = rc
        meta["tests_with_patch_tail"] = out.strip().splitlines()[-1] if out.strip() else ""
        rc, out = sh(f"/venv/bin/python {demo}", wt, 600)
        meta["demo_with_patch_rc"] = rc
        meta["demo_with_patch_tail"] = out.strip()[-400:]
    finally:
        sh(f"git worktree remove --force {wt}", REPO)
    meta["confirmed"] = (meta.get("demo_without_patch_rc") == 0 and meta.get("tests_with_patch_rc") == 0 and meta.get("demo_with_patch_rc") == 1)
    print("confirmed:", meta["confirmed"], {k: meta[k] for k in ("demo_without_patch_rc", "tests_with_patch_rc", "demo_with_patch_rc")}, meta.get("tests_with_patch_tail"))
    # 2. the checks
    detected = {}
    if meta["confirmed"]:
        rc, out = sh(f"git apply {patch}", REPO)
        try:
            for p in [pid] + also:
                t0 = time.time()
                rc, out = sh(f"./check {p} --tier {tier}", VERIF, 7200)
                viol = [l for l in out.splitlines() if l.startswith("VIOLATION ")]
                detected[p] = {"rc": rc, "wall_s": round(time.time() - t0, 1), "violations": len(viol), "first": (viol[0][:600] if viol else ""),
                               "jobs": sorted({re.sub(r"-[0-9a-f]{10}\.json.*", "", v.split("replay=")[1].split("/")[-1]) for v in viol})[:8]}
                meta["ran"].append(f"git -C /repo apply patch.diff && ./check {p} --tier {tier} -> rc={rc}, {len(viol)} VIOLATION lines; git -C /repo checkout -- .")
                print(p, "rc", rc, "violations", len(viol), (viol[0][:300] if viol else ""))
        finally:
            sh("git checkout -- .", REPO)
        rc, out = sh("git status --porcelain --untracked-files=no", REPO)
        assert not out.strip(), "repo not restored"
    meta["detected"] = detected
    meta["detected_by_own_property_check"] = bool(detected.get(pid, {}).get("rc") == 1)
    dst = os.path.join(VERIF, "seeded", name)
    os.makedirs(dst, exist_ok=True)
    shutil.copy(patch, os.path.join(dst, "patch.diff"))
    shutil.copy(demo, os.path.join(dst, "demo.py"))
    if os.path.exists(os.path.join(seed_dir, "notes.md")):
        shutil.copy(os.path.join(seed_dir, "notes.md"), os.path.join(dst, "notes.md"))
        meta["needs_to_manifest"] = open(os.path.join(seed_dir, "notes.md")).read()[:1500]
    with open(os.path.join(dst, "meta.json"), "w") as f:
        json.dump(meta, f, indent=1)
    return 0


if __name__ == "__main__":
    sys.exit(main())
