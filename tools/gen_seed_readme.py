#!/usr/bin/env python3
"""Generates /verif/seeded/README.md from seeded/*/meta.json (written by tools/eval_seed.py)."""
import json
import os
import re

HERE = os.path.dirname(os.path.dirname(os.path.abspath(__file__)))
SEEDED = os.path.join(HERE, "seeded")


def first_sentence(notes: str) -> str:
    lines = [l.strip() for l in notes.splitlines() if l.strip()]
    head = lines[0].lstrip("# ").strip() if lines else ""
    return re.sub(r"\s+", " ", head)[:160]


def main():
    rows = []
    for name in sorted(os.listdir(SEEDED)):
        mp = os.path.join(SEEDED, name, "meta.json")
        if not os.path.exists(mp):
            continue
        m = json.load(open(mp))
        pid = m["property"]
        det = m.get("detected", {}).get(pid, {})
        notes = ""
        np_ = os.path.join(SEEDED, name, "notes.md")
        if os.path.exists(np_):
            notes = open(np_).read()
        first = det.get("first", "")
        key = ""
        mk = re.search(r"key=(.*?) ::", first)
        if mk:
            key = mk.group(1)[:60]
        rows.append((name, pid, first_sentence(notes), m.get("confirmed"), det.get("rc"), det.get("violations", 0), ", ".join(det.get("jobs", [])[:3]), key, det.get("wall_s")))
    out = ["# Seeded changes", "",
           "Each directory holds one change to `ak_py` produced by a fresh sub-agent that saw only the property text and its own",
           "scratch worktree: `patch.diff`, `demo.py` (exit 1 with the change, 0 without), `notes.md` (what it needs to manifest) and",
           "`meta.json` (what was run and what the property's quick check reported).  Every change was confirmed in a scratch",
           "worktree (whole test-suite passes with it; demonstration 1 / 0) by `tools/eval_seed.py`, applied to `/repo` only with",
           "`git apply`, checked, and undone straight afterwards.  None is committed in `/repo`.", "",
           "| seed | what | confirmed | quick check of its property | reporting harness | first key | wall s |", "|---|---|---|---|---|---|---|"]
    ndet = 0
    for name, pid, what, conf, rc, nv, jobs, key, wall in rows:
        verdict = "**detected** (%d VIOLATION lines)" % nv if rc == 1 else ("harness error (rc 2)" if rc == 2 else "missed")
        if rc == 1:
            ndet += 1
        out.append(f"| {name} | {what} | {'yes' if conf else 'NO'} | {verdict} | {jobs} | {key} | {wall} |")
    out += ["", f"{ndet} of {len(rows)} confirmed changes are reported by the quick tier of their own property's check.", ""]
    with open(os.path.join(SEEDED, "README.md"), "w") as f:
        f.write("\n".join(out))
    # compact per-property table inside DESIGN.md (between the markers)
    by_prop = {}
    for name, pid, what, conf, rc, nv, jobs, key, wall in rows:
        by_prop.setdefault(pid, []).append((name, what, rc, jobs, key))
    tab = ["| prop | seeded change (what it needs is in its notes.md) | quick check | reporting harness / first key |", "|---|---|---|---|"]
    for pid in sorted(by_prop):
        for name, what, rc, jobs, key in by_prop[pid]:
            tab.append(f"| {pid} | `{name}`: {what[:110]} | {'reported' if rc == 1 else ('harness error' if rc == 2 else 'not reported')} | {jobs.split(',')[0] if jobs else ''} / {key} |")
    dp = os.path.join(HERE, "DESIGN.md")
    d = open(dp).read()
    b, e = "<!-- seeded-table:begin -->", "<!-- seeded-table:end -->"
    if b in d and e in d:
        d = d[:d.index(b) + len(b)] + "\n" + "\n".join(tab) + "\n" + d[d.index(e):]
        open(dp, "w").write(d)
    print(f"{ndet}/{len(rows)} detected")


if __name__ == "__main__":
    main()
