#!/bin/sh
# Builds the overlay venv (offline): /venv's packages + crosshair-tool + z3-solver from the local wheelhouse.
set -e
cd "$(dirname "$0")"
if [ ! -x .venv/bin/python ] || ! .venv/bin/python -c "import crosshair, z3" 2>/dev/null; then
  rm -rf .venv
  /venv/bin/python -m venv .venv
  echo "import site; site.addsitedir('/venv/lib/python3.12/site-packages')" > .venv/lib/python3.12/site-packages/_overlay.pth
  PIP_NO_INDEX=1 .venv/bin/pip install -q --no-index --find-links /opt/veriftools/wheels crosshair-tool z3-solver >/dev/null
fi
.venv/bin/python -c "import crosshair, z3, sys; sys.path.insert(0,'/repo'); import ak"
