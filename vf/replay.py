"""Fresh-interpreter replay of one counterexample file (no CrossHair in this process)."""
import json
import sys

from vf import core


def main():
    with open(sys.argv[1]) as f:
        record = json.load(f)
    out = core.do_replay_record(record)
    print("REPLAY-RESULT " + json.dumps(out))


if __name__ == "__main__":
    main()
