"""Shared machinery: job scheduling, replay, known findings, evidence, exit codes."""
from __future__ import annotations

import hashlib
import importlib
import inspect
import json
import multiprocessing as mp
import os
import subprocess
import sys
import time
import traceback
from concurrent.futures import ProcessPoolExecutor, as_completed
from dataclasses import dataclass, field
from typing import Any, Callable, Dict, List, Optional

VERIF = os.path.dirname(os.path.dirname(os.path.abspath(__file__)))
REPO = os.environ.get("VERIF_REPO", "/repo")
EVIDENCE_DIR = os.environ.get("VERIF_EVIDENCE_DIR") or os.path.join(VERIF, "evidence")   # (redirected only by developer tooling)
REPLAY_DIR = os.path.join(EVIDENCE_DIR, "replays")
KNOWN_FILE = os.path.join(VERIF, "known_findings.json")

EXIT_OK, EXIT_VIOLATION, EXIT_HARNESS = 0, 1, 2


def ensure_repo_on_path():
    if sys.path[0] != REPO:
        if REPO in sys.path:
            sys.path.remove(REPO)
        sys.path.insert(0, REPO)
    os.environ.setdefault("AK_PY_VERIF", "1")


ensure_repo_on_path()


# ---------------------------------------------------------------------------------------------------
@dataclass
class Job:
    """One bounded space explored by one engine run (in a worker process)."""
    module: str            # e.g. "vf.props.c08"
    func: str              # harness function name (XH) or query-runner name (solver jobs)
    kind: str = "xh"       # "xh" | "solver"
    shard: Any = None      # concrete shard description (JSON-able); passed as fixed parameter 'shard' if not None
    fixed: Dict[str, Any] = field(default_factory=dict)
    budget_s: float = 60.0
    per_path_timeout: float = 10.0
    max_paths: int = 10**9
    must_exhaust: bool = False   # quick-tier spaces that are sized to exhaust; not exhausting is reported
    allow_vacuous: bool = False  # a shard of a family sweep in which the property's precondition may hold for no member
    label: str = ""

    def name(self):
        return self.label or f"{self.func}[{json.dumps(self.shard, sort_keys=True, default=str)}]"


def _worker(job: Job, known_keys: List[str]) -> Dict[str, Any]:
    ensure_repo_on_path()
    try:
        mod = importlib.import_module(job.module)
        fn = getattr(mod, job.func)
        if job.kind == "solver":
            t0 = time.perf_counter()
            out = fn(**({"shard": job.shard} if job.shard is not None else {}), **job.fixed)
            out.setdefault("wall_s", round(time.perf_counter() - t0, 3))
            out["job"] = job.name()
            out["kind"] = "solver"
            out["func"] = job.func
            out["shard"] = job.shard
            return out
        from vf import xh
        fixed = dict(job.fixed)
        if job.shard is not None:
            fixed["shard"] = job.shard
        harness = fn
        excl = getattr(mod, "KNOWN_EXCLUDERS", {})
        active = [excl[k] for k in known_keys if k in excl]
        if active:
            def harness(*a, __fn=fn, **kw):  # noqa
                for pred in active:
                    if pred(*a, **kw):
                        raise xh.Reject()
                return __fn(*a, **kw)
            harness.__signature__ = inspect.signature(fn)  # type: ignore
            harness.__name__ = fn.__name__
        reset = getattr(mod, "reset_state", None)
        r = xh.explore(harness, fixed=fixed, budget_s=job.budget_s, per_path_timeout=job.per_path_timeout,
                       max_paths=job.max_paths, reset=reset, name=job.func, shard=job.shard)
        out = r.to_json()
        out["job"] = job.name()
        out["kind"] = "xh"
        out["must_exhaust"] = job.must_exhaust
        out["allow_vacuous"] = job.allow_vacuous
        if r.counterexample is not None:
            out["counterexample"]["fixed"] = fixed
        return out
    except BaseException as e:  # noqa
        return {"job": job.name(), "kind": job.kind, "error": f"{type(e).__name__}: {e}\n{traceback.format_exc()[-2500:]}"}


def run_jobs(jobs: List[Job], known_keys: List[str], workers: int = 16, wall_cap_s: Optional[float] = None) -> List[Dict[str, Any]]:
    results: List[Dict[str, Any]] = []
    if not jobs:
        return results
    workers = max(1, min(workers, len(jobs)))
    ctx = mp.get_context("fork")
    with ProcessPoolExecutor(max_workers=workers, mp_context=ctx) as ex:
        futs = {ex.submit(_worker, j, known_keys): j for j in jobs}
        for f in as_completed(futs):
            j = futs[f]
            try:
                results.append(f.result())
            except BaseException as e:  # worker died
                results.append({"job": j.name(), "kind": j.kind, "error": f"worker failed: {e!r}"})
    order = {j.name(): i for i, j in enumerate(jobs)}
    results.sort(key=lambda r: order.get(r["job"], 0))
    return results


# ---------------------------------------------------------------------------------------------------
def functions_info(names: List[str]) -> List[Dict[str, str]]:
    """Qualified names of the real functions exercised + sha256 of their current source."""
    out = []
    for qn in names:
        parts = qn.split(".")
        obj = None
        err = None
        for i in range(len(parts), 0, -1):
            try:
                obj = importlib.import_module(".".join(parts[:i]))
                for p in parts[i:]:
                    obj = inspect.getattr_static(obj, p) if inspect.isclass(obj) else getattr(obj, p)
                break
            except Exception as e:  # noqa
                err = e
                obj = None
        try:
            if isinstance(obj, (staticmethod, classmethod)):
                obj = obj.__func__
            if isinstance(obj, property):
                obj = obj.fget
            src = inspect.getsource(obj)
            out.append({"name": qn, "sha256": hashlib.sha256(src.encode()).hexdigest()[:16], "lines": src.count("\n")})
        except Exception as e:  # noqa
            out.append({"name": qn, "sha256": "unavailable", "note": f"{err or e}"})
    return out


def load_known() -> Dict[str, Any]:
    try:
        with open(KNOWN_FILE) as f:
            return json.load(f)
    except FileNotFoundError:
        return {"findings": []}


def known_keys_for(prop_id: str) -> Dict[str, Dict[str, Any]]:
    return {e["key"]: e for e in load_known().get("findings", []) if e["property"] == prop_id and e.get("status") == "known"}


def write_replay(prop_id: str, record: Dict[str, Any]) -> str:
    os.makedirs(REPLAY_DIR, exist_ok=True)
    blob = json.dumps(record, sort_keys=True, default=str)
    h = hashlib.sha256(blob.encode()).hexdigest()[:10]
    path = os.path.join(REPLAY_DIR, f"{prop_id}-{record.get('harness', 'q')}-{h}.json")
    with open(path, "w") as f:
        json.dump(record, f, indent=1, sort_keys=True, default=str)
    return path


def replay_in_fresh_interpreter(path: str, timeout: float = 300.0) -> Dict[str, Any]:
    """Replays a counterexample file in a fresh plain interpreter (no CrossHair). -> {"reproduced": bool, "detail": str}"""
    env = dict(os.environ)
    env["PYTHONPATH"] = f"{REPO}:{VERIF}"
    p = subprocess.run([sys.executable, "-m", "vf.replay", path], cwd=VERIF, env=env, capture_output=True, text=True, timeout=timeout)
    last = [l for l in p.stdout.strip().splitlines() if l.startswith("REPLAY-RESULT ")]
    if not last:
        return {"reproduced": False, "detail": f"replay crashed rc={p.returncode}: {p.stdout[-800:]} {p.stderr[-1500:]}", "crashed": True}
    return json.loads(last[-1][len("REPLAY-RESULT "):])


def do_replay_record(record: Dict[str, Any]) -> Dict[str, Any]:
    """Executed inside the fresh interpreter."""
    ensure_repo_on_path()
    mod = importlib.import_module(record["module"])
    custom = getattr(mod, "replay_" + record["harness"], None)
    if custom is not None:
        detail = custom(record)
    else:
        from vf import xh
        fn = getattr(mod, record["harness"])
        args = dict(record.get("fixed") or {})
        args.update(decode_args(record["args"]))
        reset = getattr(mod, "reset_state", None)
        if reset:
            reset()
        detail = xh.run_concrete(fn, args)
    if detail == "REJECTED":
        return {"reproduced": False, "detail": "input rejected by the harness precondition on concrete replay"}
    return {"reproduced": detail is not None, "detail": detail or "property held on replay"}


def decode_args(a):
    if isinstance(a, dict):
        if set(a.keys()) == {"__bytes__"}:
            return a["__bytes__"].encode("latin1")
        return {k: decode_args(v) for k, v in a.items()}
    if isinstance(a, list):
        return [decode_args(x) for x in a]
    return a


# ---------------------------------------------------------------------------------------------------
def finish(prop, tier: str, seed: int, results: List[Dict[str, Any]], t0: float, extra_cov: Optional[Dict[str, Any]] = None) -> int:
    """Turn job results into verdict + evidence. `prop` is the property module."""
    pid = prop.PROPERTY_ID
    known = known_keys_for(pid)
    violations = []
    known_hits = []
    harness_errors = []
    non_repro = []
    for r in results:
        if r.get("error"):
            harness_errors.append(f"{r['job']}: {r['error']}")
        ce = r.get("counterexample")
        if not ce:
            continue
        record = {
            "property": pid, "module": prop.__name__, "harness": r.get("harness") or r.get("func") or "query",
            "job": r["job"], "shard": r.get("shard"), "args": ce.get("args"), "fixed": ce.get("fixed"),
            "message": ce.get("message"), "exc_type": ce.get("exc_type"), "engine": r.get("kind"),
            "replay_hint": ce.get("replay_hint"),
        }
        try:
            key = prop.classify(record)
        except Exception as e:  # noqa
            key = f"unclassified:{r['job']}"
        record["key"] = key
        path = write_replay(pid, record)
        try:
            rep = replay_in_fresh_interpreter(path)
        except Exception as e:  # noqa
            rep = {"reproduced": False, "detail": f"replay failed to run: {e!r}", "crashed": True}
        r["replay"] = {"path": path, **rep, "key": key}
        if rep.get("reproduced"):
            if key in known:
                known_hits.append((key, known[key], path))
            else:
                violations.append((key, path, rep.get("detail", "")))
        else:
            non_repro.append(f"{r['job']}: counterexample did not reproduce on the real code: {rep.get('detail')}")

    # a known finding stops its space at the first hit; the job is re-run by the caller with the key excluded
    # (see cli.run_property), so `results` here already contains the re-run.
    evaluations = 0
    distinct = 0
    samples = []
    solver_checks = 0
    solver_time = 0.0
    unknown_paths = 0
    all_exhausted = True
    per_job = []
    for r in results:
        if r.get("kind") == "xh" and not r.get("error"):
            evaluations += r.get("paths", 0)
            distinct += r.get("confirmed", 0)
            unknown_paths += r.get("unknown", 0)
            solver_checks += r.get("solver_checks", 0)
            solver_time += r.get("solver_time_s", 0.0)
            if not r.get("exhausted"):
                all_exhausted = False
            for s in r.get("samples", [])[:1]:
                if len(samples) < 12:
                    samples.append({"job": r["job"], "input": s})
        elif r.get("kind") == "solver" and not r.get("error"):
            evaluations += r.get("queries", 0)
            distinct += r.get("queries_nontrivial", r.get("queries", 0))
            solver_checks += r.get("queries", 0)
            solver_time += r.get("solver_time_s", 0.0)
            if r.get("inconclusive"):
                all_exhausted = False
            for s in r.get("samples", [])[:3]:
                if len(samples) < 12:
                    samples.append({"job": r["job"], "query": s})
        pj = {k: r.get(k) for k in ("job", "kind", "paths", "confirmed", "ignored", "unknown", "exhausted", "stop_reason",
                                    "queries", "unsat", "sat", "inconclusive", "solver_checks", "solver_time_s", "wall_s", "cpu_s", "bounds") if r.get(k) is not None}
        if r.get("replay"):
            pj["replay"] = r["replay"]
        if r.get("error"):
            pj["error"] = r["error"][:600]
        per_job.append(pj)
        # vacuity guard: a space in which no path reached the final assertion proves nothing
        if r.get("kind") == "xh" and not r.get("error") and not r.get("counterexample") and r.get("confirmed", 0) == 0 and not r.get("allow_vacuous"):
            harness_errors.append(f"{r['job']}: vacuous - no path reached the end of the harness ({r.get('ignored')} ignored, {r.get('unknown')} unknown)")
        if r.get("kind") == "xh" and r.get("must_exhaust") and not r.get("exhausted") and not r.get("counterexample") and not r.get("error"):
            pass  # recorded in per_job; stated as inconclusive remainder, not an error

    cov = {
        "evaluations": evaluations,
        "distinct_nontrivial": distinct,
        "rule": "evaluations = execution paths explored by CrossHair (each path = one z3-feasible branch combination of the real code, "
                "covering every input that satisfies its path condition) + SMT queries discharged; non-trivial/distinct = paths that passed "
                "the harness precondition and reached the final property assertion (paths are distinct by construction) + queries whose "
                "reachability twin was sat",
        "samples": samples or [{"note": "no sample"}],
        "exhaustive": bool(all_exhausted and unknown_paths == 0 and not harness_errors),
        "functions_encoded": functions_info(getattr(prop, "FUNCTIONS", [])),
        "bounds": getattr(prop, "BOUNDS", {}).get(tier, getattr(prop, "BOUNDS", {})),
        "outside_claim": getattr(prop, "OUTSIDE", []),
        "stubs": getattr(prop, "STUBS", []),
        "solver_checks": solver_checks,
        "solver_time_s": round(solver_time, 3),
        "paths_unknown": unknown_paths,
        "jobs": per_job,
        "known_findings_hit": [k for k, _, _ in known_hits],
        "violations": [{"key": k, "replay": p, "detail": d[:1500]} for k, p, d in violations],
        "harness_errors": harness_errors + non_repro,
        "repo_head": _repo_head(),
    }
    if extra_cov:
        cov.update(extra_cov)
    ev = {
        "property_id": pid, "tier": tier, "seed": seed, "level": "model_checking", "coverage": cov,
        "assumptions": getattr(prop, "ASSUMPTIONS", []),
        "wall_s": round(time.time() - t0, 2), "violations": len(violations),
    }
    os.makedirs(EVIDENCE_DIR, exist_ok=True)
    with open(os.path.join(EVIDENCE_DIR, f"{pid}.json"), "w") as f:
        json.dump(ev, f, indent=1, default=str)

    for key, entry, path in known_hits:
        print(f"KNOWN-FINDING: property={pid} {entry.get('what', key)} [key={key}]")
    for key, path, detail in violations:
        first = (detail or "").strip().splitlines()[0] if detail else ""
        print(f"VIOLATION property={pid} replay={path} key={key} :: {first[:300]}")
    for e in harness_errors + non_repro:
        print(f"HARNESS-ERROR property={pid} {e[:1200]}", file=sys.stderr)
    nx = sum(1 for r in results if r.get("kind") == "xh" and not r.get("exhausted") and not r.get("error"))
    print(f"[{pid}] tier={tier} jobs={len(results)} paths/queries={evaluations} reached-assertion={distinct} "
          f"solver_checks={solver_checks} solver_time={solver_time:.1f}s not-exhausted-spaces={nx} unknown-paths={unknown_paths} "
          f"violations={len(violations)} known={len(known_hits)} wall={time.time() - t0:.1f}s")
    if violations:
        return EXIT_VIOLATION
    if harness_errors or non_repro:
        return EXIT_HARNESS
    return EXIT_OK


def _repo_head() -> str:
    try:
        h = subprocess.run(["git", "-C", REPO, "rev-parse", "--short", "HEAD"], capture_output=True, text=True).stdout.strip()
        d = subprocess.run(["git", "-C", REPO, "status", "--porcelain", "--untracked-files=no"], capture_output=True, text=True).stdout.strip()
        return h + ("+dirty" if d else "")
    except Exception:  # noqa
        return "unknown"
