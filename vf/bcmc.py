"""BCMC engine: bounded model checking of thread interleavings at bytecode granularity (z3).

The real function's bytecode (dis.get_instructions of the *current* code object) is compiled - by an abstract
interpretation of the value stack over a straight-line instruction sequence - into per-thread lists of steps:
  local (no shared effect) | read reg := shared | write shared := expr | acquire(lock) | release(lock) | return number
A thread may be pre-empted between ANY two instructions.  The schedule is a symbolic array sched[k]; shared state
(counter, lock owner) has one z3 version per step; thread-local ints are SSA z3 variables.
"""
from __future__ import annotations

import dis
import time
from typing import Any, Dict, List, Optional, Tuple

import z3


class Untranslatable(Exception):
    pass


class AV:
    """abstract stack value"""

    def __init__(self, kind, **kw):
        self.kind = kind      # self | lock | exit | none | const | int | obj | null | true
        self.__dict__.update(kw)

    def __repr__(self):
        return f"AV({self.kind})"


def compile_function(fn, self_obj, tag: str) -> Tuple[List[Dict[str, Any]], Dict[str, Any]]:
    """-> (steps, info). Each instruction yields exactly one step (so steps map 1:1 to 'opcode' trace events)."""
    code = fn.__code__
    instrs = [i for i in dis.get_instructions(code)]
    steps: List[Dict[str, Any]] = []
    stack: List[AV] = []
    local: Dict[str, AV] = {code.co_varnames[0]: AV("self")}
    nreg = [0]

    def newreg(deps=None, expr=None):
        nreg[0] += 1
        r = z3.Int(f"{tag}_r{nreg[0]}")
        return AV("int", reg=r, deps=deps or [r], expr=expr)

    def attr_kind(name):
        try:
            v = getattr(self_obj, name)
        except AttributeError:
            raise Untranslatable(f"attribute {name} does not exist on the live object")
        tn = type(v).__name__
        if tn in ("lock", "RLock", "_RLock") or "lock" in tn.lower():
            return "lock"
        if isinstance(v, int) and not isinstance(v, bool):
            return "counter"
        return "obj"

    idx = 0
    offset_to_idx = {ins.offset: k for k, ins in enumerate(instrs)}
    done = False
    ret = None
    while idx < len(instrs) and not done:
        ins = instrs[idx]
        op, arg = ins.opname, ins.argval
        st: Dict[str, Any] = {"kind": "local", "op": op, "offset": ins.offset}
        nxt = idx + 1
        if op in ("RESUME", "NOP", "CACHE", "PRECALL", "KW_NAMES"):
            pass
        elif op in ("LOAD_FAST", "LOAD_FAST_CHECK"):
            if arg not in local:
                raise Untranslatable(f"read of unassigned local {arg}")
            stack.append(local[arg])
        elif op == "STORE_FAST":
            local[arg] = stack.pop()
        elif op == "LOAD_CONST":
            v = ins.argval
            stack.append(AV("none") if v is None else (AV("const", value=v) if isinstance(v, int) and not isinstance(v, bool) else AV("obj", deps=[])))
        elif op == "POP_TOP":
            stack.pop()
        elif op == "COPY":
            stack.append(stack[-ins.arg])
        elif op == "SWAP":
            stack[-1], stack[-ins.arg] = stack[-ins.arg], stack[-1]
        elif op == "PUSH_NULL":
            stack.append(AV("null"))
        elif op in ("LOAD_ATTR", "LOAD_METHOD"):
            o = stack.pop()
            method_form = bool(ins.arg & 1) if op == "LOAD_ATTR" else True
            if o.kind == "self":
                k = attr_kind(arg)
                if k == "lock":
                    v = AV("lock", name=arg)
                elif k == "counter":
                    v = newreg()
                    st = {"kind": "read", "var": arg, "reg": v.reg, "op": op, "offset": ins.offset}
                else:
                    v = AV("obj", deps=[], shared_attr=arg)       # another attribute of the shared object: its value is state
            elif o.kind == "lock" and arg in ("acquire", "release", "__enter__", "__exit__"):
                v = AV("lockmethod", name=o.name, method=arg)
            else:
                v = AV("obj", deps=list(getattr(o, "deps", [])))
            if method_form:
                stack.append(AV("null"))
            stack.append(v)
        elif op == "STORE_ATTR":
            o = stack.pop()
            v = stack.pop()
            if o.kind != "self":
                raise Untranslatable("STORE_ATTR on a non-self object")
            if attr_kind(arg) != "counter":
                raise Untranslatable(f"store to attribute {arg} which is not the int counter")
            if v.kind == "int":
                expr = v.expr if v.expr is not None else v.reg
            elif v.kind == "const":
                expr = z3.IntVal(v.value)
            else:
                raise Untranslatable("storing a non-int into the counter")
            st = {"kind": "write", "var": arg, "expr": expr, "op": op, "offset": ins.offset}
        elif op == "BINARY_OP":
            b = stack.pop()
            a = stack.pop()

            def term(x):
                if x.kind == "int":
                    return x.expr if x.expr is not None else x.reg
                if x.kind == "const":
                    return z3.IntVal(x.value)
                return None
            ta, tb = term(a), term(b)
            sym = ins.argrepr
            if ta is not None and tb is not None and sym in ("+", "+=", "-", "-="):
                e = ta + tb if sym.startswith("+") else ta - tb
                deps = list(getattr(a, "deps", [])) + list(getattr(b, "deps", []))
                stack.append(AV("int", reg=None, deps=deps, expr=e))
            else:
                stack.append(AV("obj", deps=list(getattr(a, "deps", [])) + list(getattr(b, "deps", []))))
        elif op == "BEFORE_WITH":
            o = stack.pop()
            if o.kind != "lock":
                raise Untranslatable("with-statement on something that is not the lock")
            stack.append(AV("lockmethod", name=o.name, method="__exit__"))
            stack.append(AV("true"))
            st = {"kind": "acquire", "lock": o.name, "op": op, "offset": ins.offset}
        elif op == "CALL":
            n = ins.arg
            args = [stack.pop() for _ in range(n)][::-1]
            c1 = stack.pop()
            c0 = stack.pop()
            callee = c1 if c0.kind == "null" else c0
            if c0.kind == "lockmethod":
                callee = c0
            if c1.kind == "lockmethod":
                callee = c1
            if callee.kind == "lockmethod":
                if callee.method in ("__exit__", "release"):
                    st = {"kind": "release", "lock": callee.name, "op": op, "offset": ins.offset}
                    stack.append(AV("none"))
                else:
                    st = {"kind": "acquire", "lock": callee.name, "op": op, "offset": ins.offset}
                    stack.append(AV("true"))
            else:
                deps = []
                for x in args + [callee]:
                    deps += list(getattr(x, "deps", []))
                if callee.kind not in ("obj",):
                    raise Untranslatable(f"call of {callee.kind}")
                stack.append(AV("obj", deps=deps))
        elif op in ("POP_JUMP_IF_NOT_NONE", "POP_JUMP_IF_NONE"):
            v = stack.pop()
            if getattr(v, "shared_attr", None) is not None:
                # e.g. a lock that is created on first use: which way this goes depends on what other threads did; the
                # straight-line model cannot decide it statically
                raise Untranslatable(f"branch on the value of the shared attribute {v.shared_attr!r}")
            if v.kind in ("int", "const", "obj", "true"):
                is_none = False
            elif v.kind == "none":
                is_none = True
            else:
                raise Untranslatable("None-test on an unknown value")
            jump = (op == "POP_JUMP_IF_NONE") == is_none
            if jump:
                nxt = offset_to_idx[ins.argval]
        elif op in ("JUMP_FORWARD", "JUMP_BACKWARD", "JUMP_BACKWARD_NO_INTERRUPT"):
            nxt = offset_to_idx[ins.argval]
        elif op == "RETURN_VALUE":
            ret = stack.pop()
            done = True
        elif op == "RETURN_CONST":
            ret = AV("none")
            done = True
        elif op in ("FORMAT_VALUE", "BUILD_STRING"):
            n = ins.arg if op == "BUILD_STRING" else 1
            xs = [stack.pop() for _ in range(n)]
            deps = []
            for x in xs:
                deps += list(getattr(x, "deps", []))
            stack.append(AV("obj", deps=deps))
        else:
            raise Untranslatable(f"opcode {op} is outside the modelled subset")
        steps.append(st)
        idx = nxt
    if ret is None:
        raise Untranslatable("function body does not end in a return")
    deps = list(getattr(ret, "deps", []))
    if ret.kind == "none" or not deps:
        raise Untranslatable("return value does not depend on a number read from the counter")
    number = deps[-1] if ret.kind != "int" else (ret.expr if ret.expr is not None else ret.reg)
    steps[-1] = dict(steps[-1], kind="ret", number=number)
    return steps, {"n_instructions": len(steps), "ops": [s["op"] for s in steps]}


class Model:
    def __init__(self, fn, self_obj, threads: int, calls: int, timeout_ms=300000):
        self.T, self.calls = threads, calls
        self.progs: List[List[Dict[str, Any]]] = []
        self.info = None
        for t in range(threads):
            prog: List[Dict[str, Any]] = []
            for c in range(calls):
                steps, info = compile_function(fn, self_obj, f"t{t}c{c}")
                self.info = info
                prog += [dict(s, call=c) for s in steps]
            self.progs.append(prog)
        # Partial-order reduction: instructions without shared effect (local/ret) are both-movers - they commute with
        # every instruction of the other threads - so every interleaving at instruction granularity is equivalent
        # (same shared-state history, same thread-local values) to one in which each local instruction runs right
        # before its thread's next visible instruction.  Only visible steps are scheduled symbolically.
        self.full_progs = self.progs
        self.progs = [[dict(st, pos=i) for i, st in enumerate(prog) if st["kind"] not in ("local", "ret")] for prog in self.full_progs]
        self.K = sum(len(p) for p in self.progs)
        self.timeout_ms = timeout_ms
        self.c0 = z3.Int("c0")
        self.sched = [z3.Int(f"s{k}") for k in range(self.K)]
        self.cur = [z3.Int(f"cur{k}") for k in range(self.K + 1)]
        self.owner = [z3.Int(f"own{k}") for k in range(self.K + 1)]
        self.pc = [[z3.Int(f"pc{t}_{k}") for k in range(self.K + 1)] for t in range(self.T)]
        self.queries = 0
        self.solver_time = 0.0

    def _step_constraints(self, k: int):
        cons = []
        sk = self.sched[k]
        cons.append(z3.And(sk >= 0, sk < self.T))
        cur_next = self.cur[k]
        own_next = self.owner[k]
        for t, prog in enumerate(self.progs):
            here = sk == t
            cons.append(self.pc[t][k + 1] == z3.If(here, self.pc[t][k] + 1, self.pc[t][k]))
            cons.append(z3.Implies(here, self.pc[t][k] < len(prog)))
            for i, st in enumerate(prog):
                if st["kind"] == "local" or st["kind"] == "ret":
                    continue
                if i > k:
                    continue
                g = z3.And(here, self.pc[t][k] == i)
                if st["kind"] == "read":
                    cons.append(z3.Implies(g, st["reg"] == self.cur[k]))
                elif st["kind"] == "write":
                    cur_next = z3.If(g, st["expr"], cur_next)
                elif st["kind"] == "acquire":
                    cons.append(z3.Implies(g, self.owner[k] == -1))
                    own_next = z3.If(g, z3.IntVal(t), own_next)
                elif st["kind"] == "release":
                    own_next = z3.If(g, z3.IntVal(-1), own_next)
        cons.append(self.cur[k + 1] == cur_next)
        cons.append(self.owner[k + 1] == own_next)
        return cons

    def base(self):
        cons = [self.c0 >= 0, self.cur[0] == self.c0, self.owner[0] == -1]
        for t in range(self.T):
            cons.append(self.pc[t][0] == 0)
        return cons

    def _check(self, cons):
        s = z3.Solver()
        s.set("timeout", self.timeout_ms)
        s.add(*cons)
        t0 = time.perf_counter()
        r = s.check()
        self.solver_time += time.perf_counter() - t0
        self.queries += 1
        return str(r), (s.model() if r == z3.sat else None)

    def numbers(self):
        out = []
        for prog in self.full_progs:
            for st in prog:
                if st["kind"] == "ret":
                    out.append(st["number"])
        return out

    def complete_run(self):
        cons = self.base()
        for k in range(self.K):
            cons += self._step_constraints(k)
        return cons

    def query_violation(self):
        """exists a complete schedule after which two calls got the same number, a number was skipped, or the counter is off"""
        cons = self.complete_run()
        nums = self.numbers()
        n = len(nums)
        bad = [z3.Not(z3.Distinct(*nums)) if n > 1 else z3.BoolVal(False), self.cur[self.K] != self.c0 + n]
        bad += [z3.Or(x < self.c0, x >= self.c0 + n) for x in nums]
        r, m = self._check(cons + [z3.Or(*bad)])
        return r, m

    def query_reachable(self):
        """twin: some complete schedule exists at all"""
        r, m = self._check(self.complete_run())
        return r, m

    def query_deadlock(self):
        """exists a valid prefix after which some thread is unfinished and no unfinished thread can move"""
        cons = self.base()
        L = z3.Int("L")
        cons.append(z3.And(L >= 0, L <= self.K))
        for k in range(self.K):
            stepc = self._step_constraints(k)
            cons.append(z3.Implies(L > k, z3.And(*stepc)))
        dead_any = []
        for k in range(self.K + 1):
            unfinished = [self.pc[t][k] < len(self.progs[t]) for t in range(self.T)]
            blocked = []
            for t, prog in enumerate(self.progs):
                acq = [i for i, st in enumerate(prog) if st["kind"] == "acquire"]
                at_acq = z3.Or(*[self.pc[t][k] == i for i in acq]) if acq else z3.BoolVal(False)
                blocked.append(z3.Or(z3.Not(unfinished[t]), z3.And(at_acq, self.owner[k] != -1)))
            dead_any.append(z3.And(L == k, z3.Or(*unfinished), z3.And(*blocked)))
        r, m = self._check(cons + [z3.Or(*dead_any)])
        return r, m

    def visible_schedule(self, m, upto: Optional[int] = None) -> List[int]:
        n = self.K if upto is None else upto
        return [m.eval(self.sched[k], model_completion=True).as_long() for k in range(n)]

    def visible_offsets(self) -> List[int]:
        return sorted({st["offset"] for prog in self.progs for st in prog})

    def schedule_from(self, m, upto: Optional[int] = None) -> List[int]:
        """instruction-granularity schedule (thread id per executed instruction) expanded from the visible-step schedule"""
        n = self.K if upto is None else upto
        vis = [m.eval(self.sched[k], model_completion=True).as_long() for k in range(n)]
        done_vis = [0] * self.T
        done_ins = [0] * self.T
        out: List[int] = []
        for t in vis:
            st = self.progs[t][done_vis[t]]
            target = st["pos"]
            while done_ins[t] <= target:
                out.append(t)
                done_ins[t] += 1
            done_vis[t] += 1
        if upto is None:
            for t in range(self.T):
                while done_ins[t] < len(self.full_progs[t]):
                    out.append(t)
                    done_ins[t] += 1
        return out
