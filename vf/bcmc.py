"""BCMC engine: bounded model checking of thread interleavings at bytecode granularity (z3).

The real function's bytecode (dis.get_instructions of the *current* code object) is compiled - by an abstract
interpretation of the value stack over a straight-line instruction sequence - into per-thread lists of steps:
  local (no shared effect) | read reg := shared | write shared := expr | acquire(lock) | release(lock) | return number
A thread may be pre-empted between ANY two instructions.  The schedule is a symbolic array sched[k]; shared state
(counter, lock owner) has one z3 version per step; thread-local ints are SSA z3 variables.
"""
from __future__ import annotations

import dis
import time
from typing import Any, Dict, List, Optional, Tuple

import z3


class Untranslatable(Exception):
    pass


class AV:
    """abstract stack value"""

    def __init__(self, kind, **kw):
        self.kind = kind      # self | lock | exit | none | const | int | obj | null | true
        self.__dict__.update(kw)

    def __repr__(self):
        return f"AV({self.kind})"


def compile_function(fn, self_obj, tag: str, fresh_lock_id: int = 2) -> Tuple[List[Dict[str, Any]], Dict[str, Any]]:
    """-> (steps, info). Each instruction yields exactly one step (so steps map 1:1 to 'opcode' trace events)."""
    code = fn.__code__
    instrs = [i for i in dis.get_instructions(code)]
    steps: List[Dict[str, Any]] = []
    stack: List[AV] = []
    local: Dict[str, AV] = {code.co_varnames[0]: AV("self")}
    nreg = [0]

    def newreg(deps=None, expr=None):
        nreg[0] += 1
        r = z3.Int(f"{tag}_r{nreg[0]}")
        return AV("int", reg=r, deps=deps or [r], expr=expr)

    def attr_kind(name):
        try:
            v = getattr(self_obj, name)
        except AttributeError:
            raise Untranslatable(f"attribute {name} does not exist on the live object")
        tn = type(v).__name__
        if tn in ("lock", "RLock", "_RLock") or "lock" in tn.lower():
            return "lock"
        if isinstance(v, int) and not isinstance(v, bool):
            return "counter"
        return "obj"

    # "lock variables": attributes of self that are used as the context manager of a with-statement AND are assigned in this
    # function (a lock created on first use).  Their value is shared state: 0 = None, j >= 1 = lock object number j.
    with_attrs = {instrs[i - 1].argval for i, ins_ in enumerate(instrs) if ins_.opname == "BEFORE_WITH" and i and instrs[i - 1].opname == "LOAD_ATTR"}
    stored_attrs = {ins_.argval for ins_ in instrs if ins_.opname == "STORE_ATTR"}
    lockvars = with_attrs & stored_attrs
    pred_until = [None]      # index up to which the current steps are predicated
    pred_cond = [None]
    idx = 0
    offset_to_idx = {ins.offset: k for k, ins in enumerate(instrs)}
    done = False
    ret = None
    while idx < len(instrs) and not done:
        ins = instrs[idx]
        op, arg = ins.opname, ins.argval
        st: Dict[str, Any] = {"kind": "local", "op": op, "offset": ins.offset}
        nxt = idx + 1
        if op in ("RESUME", "NOP", "CACHE", "PRECALL", "KW_NAMES"):
            pass
        elif op in ("LOAD_FAST", "LOAD_FAST_CHECK"):
            if arg not in local:
                raise Untranslatable(f"read of unassigned local {arg}")
            stack.append(local[arg])
        elif op == "STORE_FAST":
            local[arg] = stack.pop()
        elif op == "LOAD_CONST":
            v = ins.argval
            stack.append(AV("none") if v is None else (AV("const", value=v) if isinstance(v, int) and not isinstance(v, bool) else AV("obj", deps=[])))
        elif op == "POP_TOP":
            stack.pop()
        elif op == "COPY":
            stack.append(stack[-ins.arg])
        elif op == "SWAP":
            stack[-1], stack[-ins.arg] = stack[-ins.arg], stack[-1]
        elif op == "PUSH_NULL":
            stack.append(AV("null"))
        elif op == "LOAD_GLOBAL":
            if ins.arg & 1:
                stack.append(AV("null"))
            stack.append(AV("obj", deps=[]))         # a module / builtin: not shared mutable state of the connection
        elif op in ("LOAD_ATTR", "LOAD_METHOD"):
            o = stack.pop()
            method_form = bool(ins.arg & 1) if op == "LOAD_ATTR" else True
            if o.kind == "self" and arg in lockvars:
                v = newreg()
                v = AV("lockref", reg=v.reg, name=arg)
                st = {"kind": "gread", "var": arg, "reg": v.reg, "op": op, "offset": ins.offset}
            elif o.kind == "lockref" and arg in ("acquire", "release", "__enter__", "__exit__"):
                v = AV("lockmethod", name=o.name, method=arg, lockid=o.reg)
            elif o.kind == "self":
                k = attr_kind(arg)
                if k == "lock":
                    v = AV("lock", name=arg)
                elif k == "counter":
                    v = newreg()
                    st = {"kind": "read", "var": arg, "reg": v.reg, "op": op, "offset": ins.offset}
                else:
                    v = AV("obj", deps=[], shared_attr=arg)       # another attribute of the shared object: its value is state
            elif o.kind == "lock" and arg in ("acquire", "release", "__enter__", "__exit__"):
                v = AV("lockmethod", name=o.name, method=arg)
            else:
                v = AV("obj", deps=list(getattr(o, "deps", [])))
            if method_form:
                stack.append(AV("null"))
            stack.append(v)
        elif op == "STORE_ATTR":
            o = stack.pop()
            v = stack.pop()
            if o.kind != "self":
                raise Untranslatable("STORE_ATTR on a non-self object")
            if arg in lockvars:
                if v.kind != "obj":
                    raise Untranslatable("a lock variable is assigned something that is not a freshly created object")
                # (assumption: the object stored is a new lock, as threading.Lock() gives)
                st = {"kind": "gwrite", "var": arg, "value": fresh_lock_id, "op": op, "offset": ins.offset}
            elif attr_kind(arg) != "counter":
                raise Untranslatable(f"store to attribute {arg} which is not the int counter")
            elif v.kind == "int":
                expr = v.expr if v.expr is not None else v.reg
                st = {"kind": "write", "var": arg, "expr": expr, "op": op, "offset": ins.offset}
            elif v.kind == "const":
                expr = z3.IntVal(v.value)
                st = {"kind": "write", "var": arg, "expr": expr, "op": op, "offset": ins.offset}
            else:
                raise Untranslatable("storing a non-int into the counter")
        elif op == "BINARY_OP":
            b = stack.pop()
            a = stack.pop()

            def term(x):
                if x.kind == "int":
                    return x.expr if x.expr is not None else x.reg
                if x.kind == "const":
                    return z3.IntVal(x.value)
                return None
            ta, tb = term(a), term(b)
            sym = ins.argrepr
            if ta is not None and tb is not None and sym in ("+", "+=", "-", "-="):
                e = ta + tb if sym.startswith("+") else ta - tb
                deps = list(getattr(a, "deps", [])) + list(getattr(b, "deps", []))
                stack.append(AV("int", reg=None, deps=deps, expr=e))
            else:
                stack.append(AV("obj", deps=list(getattr(a, "deps", [])) + list(getattr(b, "deps", []))))
        elif op == "BEFORE_WITH":
            o = stack.pop()
            if o.kind == "lockref":
                stack.append(AV("lockmethod", name=o.name, method="__exit__", lockid=o.reg))
                stack.append(AV("true"))
                st = {"kind": "acquire", "lock": o.name, "lockid": o.reg, "op": op, "offset": ins.offset}
            else:
                if o.kind != "lock":
                    raise Untranslatable("with-statement on something that is not the lock")
                stack.append(AV("lockmethod", name=o.name, method="__exit__"))
                stack.append(AV("true"))
                st = {"kind": "acquire", "lock": o.name, "op": op, "offset": ins.offset}
        elif op == "CALL":
            n = ins.arg
            args = [stack.pop() for _ in range(n)][::-1]
            c1 = stack.pop()
            c0 = stack.pop()
            callee = c1 if c0.kind == "null" else c0
            if c0.kind == "lockmethod":
                callee = c0
            if c1.kind == "lockmethod":
                callee = c1
            if callee.kind == "lockmethod":
                lid = getattr(callee, "lockid", None)
                if callee.method in ("__exit__", "release"):
                    st = {"kind": "release", "lock": callee.name, "op": op, "offset": ins.offset}
                    stack.append(AV("none"))
                else:
                    st = {"kind": "acquire", "lock": callee.name, "op": op, "offset": ins.offset}
                    stack.append(AV("true"))
                if lid is not None:
                    st["lockid"] = lid
            else:
                deps = []
                for x in args + [callee]:
                    deps += list(getattr(x, "deps", []))
                if callee.kind not in ("obj",):
                    raise Untranslatable(f"call of {callee.kind}")
                stack.append(AV("obj", deps=deps))
        elif op in ("POP_JUMP_IF_NOT_NONE", "POP_JUMP_IF_NONE"):
            v = stack.pop()
            if v.kind == "lockref":
                tgt = offset_to_idx[ins.argval]
                if tgt <= idx or pred_until[0] is not None:
                    raise Untranslatable("backward or nested branch on a lock variable")
                if any(instrs[j].opname.startswith(("JUMP", "POP_JUMP", "RETURN", "FOR_", "SEND")) for j in range(idx + 1, tgt)):
                    raise Untranslatable("control flow inside a block guarded by a lock variable")
                # the fall-through block runs iff the variable is None (POP_JUMP_IF_NOT_NONE) / is not None (POP_JUMP_IF_NONE):
                # its steps are kept in the straight-line program and predicated
                pred_until[0] = tgt
                pred_cond[0] = (v.reg == 0) if op == "POP_JUMP_IF_NOT_NONE" else (v.reg != 0)
                steps.append(st)
                idx = nxt
                continue
            if getattr(v, "shared_attr", None) is not None:
                # e.g. a lock that is created on first use: which way this goes depends on what other threads did; the
                # straight-line model cannot decide it statically
                raise Untranslatable(f"branch on the value of the shared attribute {v.shared_attr!r}")
            if v.kind in ("int", "const", "obj", "true"):
                is_none = False
            elif v.kind == "none":
                is_none = True
            else:
                raise Untranslatable("None-test on an unknown value")
            jump = (op == "POP_JUMP_IF_NONE") == is_none
            if jump:
                nxt = offset_to_idx[ins.argval]
        elif op in ("JUMP_FORWARD", "JUMP_BACKWARD", "JUMP_BACKWARD_NO_INTERRUPT"):
            nxt = offset_to_idx[ins.argval]
        elif op == "RETURN_VALUE":
            ret = stack.pop()
            done = True
        elif op == "RETURN_CONST":
            ret = AV("none")
            done = True
        elif op in ("FORMAT_VALUE", "BUILD_STRING"):
            n = ins.arg if op == "BUILD_STRING" else 1
            xs = [stack.pop() for _ in range(n)]
            deps = []
            for x in xs:
                deps += list(getattr(x, "deps", []))
            stack.append(AV("obj", deps=deps))
        else:
            raise Untranslatable(f"opcode {op} is outside the modelled subset")
        if pred_until[0] is not None:
            if idx >= pred_until[0]:
                pred_until[0] = None
                pred_cond[0] = None
            else:
                st["cond"] = pred_cond[0]
        steps.append(st)
        idx = nxt
    if ret is None:
        raise Untranslatable("function body does not end in a return")
    deps = list(getattr(ret, "deps", []))
    if ret.kind == "none" or not deps:
        raise Untranslatable("return value does not depend on a number read from the counter")
    number = deps[-1] if ret.kind != "int" else (ret.expr if ret.expr is not None else ret.reg)
    steps[-1] = dict(steps[-1], kind="ret", number=number)
    lv_init = {}
    for name in lockvars:
        lv_init[name] = 0 if getattr(self_obj, name) is None else 1
    if len(lockvars) > 1:
        raise Untranslatable("more than one lock variable")
    return steps, {"n_instructions": len(steps), "ops": [s["op"] for s in steps], "lockvars": lv_init}


class Model:
    def __init__(self, fn, self_obj, threads: int, calls: int, timeout_ms=300000):
        self.T, self.calls = threads, calls
        self.progs: List[List[Dict[str, Any]]] = []
        self.info = None
        for t in range(threads):
            prog: List[Dict[str, Any]] = []
            for c in range(calls):
                steps, info = compile_function(fn, self_obj, f"t{t}c{c}", fresh_lock_id=2 + t * calls + c)
                self.info = info
                prog += [dict(s, call=c) for s in steps]
            self.progs.append(prog)
        # Partial-order reduction: instructions without shared effect (local/ret) are both-movers - they commute with
        # every instruction of the other threads - so every interleaving at instruction granularity is equivalent
        # (same shared-state history, same thread-local values) to one in which each local instruction runs right
        # before its thread's next visible instruction.  Only visible steps are scheduled symbolically.
        self.full_progs = self.progs
        self.progs = [[dict(st, pos=i) for i, st in enumerate(prog) if st["kind"] not in ("local", "ret")] for prog in self.full_progs]
        self.K = sum(len(p) for p in self.progs)
        self.timeout_ms = timeout_ms
        self.c0 = z3.Int("c0")
        self.sched = [z3.Int(f"s{k}") for k in range(self.K)]
        self.cur = [z3.Int(f"cur{k}") for k in range(self.K + 1)]
        self.owner = [z3.Int(f"own{k}") for k in range(self.K + 1)]
        # lock variables (a lock created on first use): value of the variable per step, owner per lock object number
        self.lockvar_init = (list(self.info.get("lockvars", {}).values()) or [None])[0]
        self.n_locks = 1 + threads * calls
        self.gv = [z3.Int(f"gv{k}") for k in range(self.K + 1)]
        self.owners = [[z3.Int(f"own{j}_{k}") for k in range(self.K + 1)] for j in range(self.n_locks + 1)]      # index 1..n_locks
        self.pc = [[z3.Int(f"pc{t}_{k}") for k in range(self.K + 1)] for t in range(self.T)]
        self.queries = 0
        self.solver_time = 0.0

    def _step_constraints(self, k: int):
        cons = []
        sk = self.sched[k]
        cons.append(z3.And(sk >= 0, sk < self.T))
        cur_next = self.cur[k]
        own_next = self.owner[k]
        gv_next = self.gv[k]
        owners_next = [None] + [self.owners[j][k] for j in range(1, self.n_locks + 1)]
        for t, prog in enumerate(self.progs):
            here = sk == t
            cons.append(self.pc[t][k + 1] == z3.If(here, self.pc[t][k] + 1, self.pc[t][k]))
            cons.append(z3.Implies(here, self.pc[t][k] < len(prog)))
            for i, st in enumerate(prog):
                if st["kind"] == "local" or st["kind"] == "ret":
                    continue
                if i > k:
                    continue
                g = z3.And(here, self.pc[t][k] == i)
                if st.get("cond") is not None:
                    g = z3.And(g, st["cond"])            # a predicated step whose condition is false is a no-op (the pc still advances)
                if st["kind"] == "gread":
                    cons.append(z3.Implies(g, st["reg"] == self.gv[k]))
                elif st["kind"] == "gwrite":
                    gv_next = z3.If(g, z3.IntVal(st["value"]), gv_next)
                elif st["kind"] in ("acquire", "release") and st.get("lockid") is not None:
                    e = st["lockid"]
                    if st["kind"] == "acquire":
                        cons.append(z3.Implies(g, z3.Or(*[z3.And(e == j, self.owners[j][k] == -1) for j in range(1, self.n_locks + 1)])))
                        for j in range(1, self.n_locks + 1):
                            owners_next[j] = z3.If(z3.And(g, e == j), z3.IntVal(t), owners_next[j])
                    else:
                        for j in range(1, self.n_locks + 1):
                            owners_next[j] = z3.If(z3.And(g, e == j), z3.IntVal(-1), owners_next[j])
                elif st["kind"] == "read":
                    cons.append(z3.Implies(g, st["reg"] == self.cur[k]))
                elif st["kind"] == "write":
                    cur_next = z3.If(g, st["expr"], cur_next)
                elif st["kind"] == "acquire":
                    cons.append(z3.Implies(g, self.owner[k] == -1))
                    own_next = z3.If(g, z3.IntVal(t), own_next)
                elif st["kind"] == "release":
                    own_next = z3.If(g, z3.IntVal(-1), own_next)
        cons.append(self.cur[k + 1] == cur_next)
        cons.append(self.owner[k + 1] == own_next)
        if self.lockvar_init is not None:
            cons.append(self.gv[k + 1] == gv_next)
            for j in range(1, self.n_locks + 1):
                cons.append(self.owners[j][k + 1] == owners_next[j])
        return cons

    def base(self):
        cons = [self.c0 >= 0, self.cur[0] == self.c0, self.owner[0] == -1]
        if self.lockvar_init is not None:
            cons.append(self.gv[0] == self.lockvar_init)
            cons += [self.owners[j][0] == -1 for j in range(1, self.n_locks + 1)]
        for t in range(self.T):
            cons.append(self.pc[t][0] == 0)
        return cons

    def _check(self, cons):
        s = z3.Solver()
        s.set("timeout", self.timeout_ms)
        s.add(*cons)
        t0 = time.perf_counter()
        r = s.check()
        self.solver_time += time.perf_counter() - t0
        self.queries += 1
        return str(r), (s.model() if r == z3.sat else None)

    def numbers(self):
        out = []
        for prog in self.full_progs:
            for st in prog:
                if st["kind"] == "ret":
                    out.append(st["number"])
        return out

    def complete_run(self):
        cons = self.base()
        for k in range(self.K):
            cons += self._step_constraints(k)
        return cons

    def query_violation(self):
        """exists a complete schedule after which two calls got the same number, a number was skipped, or the counter is off"""
        cons = self.complete_run()
        nums = self.numbers()
        n = len(nums)
        bad = [z3.Not(z3.Distinct(*nums)) if n > 1 else z3.BoolVal(False), self.cur[self.K] != self.c0 + n]
        bad += [z3.Or(x < self.c0, x >= self.c0 + n) for x in nums]
        r, m = self._check(cons + [z3.Or(*bad)])
        return r, m

    def query_reachable(self):
        """twin: some complete schedule exists at all"""
        r, m = self._check(self.complete_run())
        return r, m

    def query_deadlock(self):
        """exists a valid prefix after which some thread is unfinished and no unfinished thread can move"""
        cons = self.base()
        L = z3.Int("L")
        cons.append(z3.And(L >= 0, L <= self.K))
        for k in range(self.K):
            stepc = self._step_constraints(k)
            cons.append(z3.Implies(L > k, z3.And(*stepc)))
        dead_any = []
        for k in range(self.K + 1):
            unfinished = [self.pc[t][k] < len(self.progs[t]) for t in range(self.T)]
            blocked = []
            for t, prog in enumerate(self.progs):
                blk = []
                for i, st in enumerate(prog):
                    if st["kind"] != "acquire":
                        continue
                    if st.get("lockid") is not None:
                        e = st["lockid"]
                        busy = z3.Or(*[z3.And(e == j, self.owners[j][k] != -1) for j in range(1, self.n_locks + 1)])
                    else:
                        busy = self.owner[k] != -1
                    c_ = st.get("cond")
                    blk.append(z3.And(self.pc[t][k] == i, busy) if c_ is None else z3.And(self.pc[t][k] == i, c_, busy))
                at_blocked = z3.Or(*blk) if blk else z3.BoolVal(False)
                blocked.append(z3.Or(z3.Not(unfinished[t]), at_blocked))
            dead_any.append(z3.And(L == k, z3.Or(*unfinished), z3.And(*blocked)))
        r, m = self._check(cons + [z3.Or(*dead_any)])
        return r, m

    def visible_schedule(self, m, upto: Optional[int] = None) -> List[int]:
        """thread id per visible step that is really executed (steps of a guarded block that is skipped in this run are left out:
        the real threads never reach those instructions)"""
        n = self.K if upto is None else upto
        out = []
        done = [0] * self.T
        for k in range(n):
            t = m.eval(self.sched[k], model_completion=True).as_long()
            st = self.progs[t][done[t]]
            done[t] += 1
            c_ = st.get("cond")
            if c_ is not None and not z3.is_true(m.eval(c_, model_completion=True)):
                continue
            out.append(t)
        return out

    def visible_offsets(self) -> List[int]:
        return sorted({st["offset"] for prog in self.progs for st in prog})

    def schedule_from(self, m, upto: Optional[int] = None) -> List[int]:
        """instruction-granularity schedule (thread id per executed instruction) expanded from the visible-step schedule"""
        n = self.K if upto is None else upto
        vis = [m.eval(self.sched[k], model_completion=True).as_long() for k in range(n)]
        done_vis = [0] * self.T
        done_ins = [0] * self.T
        out: List[int] = []
        for t in vis:
            st = self.progs[t][done_vis[t]]
            target = st["pos"]
            while done_ins[t] <= target:
                out.append(t)
                done_ins[t] += 1
            done_vis[t] += 1
        if upto is None:
            for t in range(self.T):
                while done_ins[t] < len(self.full_progs[t]):
                    out.append(t)
                    done_ins[t] += 1
        return out
