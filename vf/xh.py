"""XH engine: CrossHair used as a library (symbolic execution of real Python code, z3 per path).

The `crosshair check` CLI is not used (its contract-enforcement layer breaks metaclass `__call__`, see
DESIGN.md 1.1).  This module drives the path exploration itself, modelled on crosshair.core.explore_paths.

A harness is a plain typed function.  Its parameters become symbolic values (by annotation).  It
  * raises `Reject` for inputs outside the stated bound (counted as ignored, never as passed);
  * calls the real `ak` code;
  * raises `Violation(msg)` (or lets any unexpected `Exception` escape) when the property is broken.
Returning normally == property held on this path (for *all* values the path condition admits).
"""
from __future__ import annotations

import inspect
import time
import traceback
from dataclasses import dataclass, field
from typing import Any, Callable, Dict, List, Optional

import z3

from crosshair.core import (  # type: ignore
    COMPOSITE_TRACER,
    CallAnalysis,
    CopyMode,
    ExceptionFilter,
    IgnoreAttempt,
    NoTracing,
    NotDeterministic,
    Patched,
    ResumedTracing,
    RootNode,
    StateSpace,
    StateSpaceContext,
    UnexploredPath,
    VerificationStatus,
    condition_parser,
    deep_realize,
    deepcopyext,
    gen_args,
)
import crosshair.core_and_libs  # noqa: F401  (registers stdlib patches)
from crosshair.options import AnalysisKind  # type: ignore
from crosshair.statespace import context_statespace  # type: ignore
from crosshair.tracers import is_tracing  # type: ignore


def _disable_premature_realization():
    """CrossHair forks every int/bool/str/list argument into 'symbolic' and 'prematurely realised' (a heuristic for bug
    *hunting*).  For exhaustive bounded exploration the realised twin only duplicates work (and never exhausts for
    unbounded ints), so arguments are always created symbolic here."""
    import crosshair.core as _core
    from crosshair.libimpl import builtinslib as _bl

    def always_symbolic(typ):
        def make(creator, *type_args):
            return typ(creator.varname, creator.pytype)
        return make
    for pytype, symtype in ((bool, _bl.SymbolicBool), (int, _bl.SymbolicBoundedInt), (str, _bl.LazyIntSymbolicStr),
                            (list, _bl.SymbolicList), (frozenset, _bl.SymbolicFrozenSet)):
        if pytype in _core._SIMPLE_PROXIES:
            _core._SIMPLE_PROXIES[pytype] = always_symbolic(symtype)


_disable_premature_realization()


class Violation(Exception):
    """The property is violated on this path."""


class HarnessError(Exception):
    """The harness (a stub, the oracle's own self-check) is wrong: never a verdict about the code under test."""


class Reject(IgnoreAttempt):
    """Input outside the stated bound / precondition (path is ignored)."""


def reject_unless(cond) -> None:
    if not cond:
        raise Reject()


def realize(v):
    """Force a value concrete (enumeration point). Works with and without tracing."""
    if is_tracing():
        return deep_realize(v)
    return v


class concrete:
    """`with concrete():` - run a block natively (no symbolic tracing).  Only for blocks whose inputs have all been
    realised: the engine has already decided every symbolic choice, the block is ordinary concrete execution."""

    def __enter__(self):
        self._nt = None
        if is_tracing():
            self._nt = NoTracing()
            self._nt.__enter__()
        return self

    def __exit__(self, *a):
        if self._nt is not None:
            return self._nt.__exit__(*a)
        return False


# ---------------------------------------------------------------------------------------------------
# solver accounting: every z3.Solver.check() call is counted and timed
# ---------------------------------------------------------------------------------------------------
class SolverStats:
    checks = 0
    time_s = 0.0
    unknown = 0
    _installed = False

    @classmethod
    def install(cls):
        if cls._installed:
            return
        cls._installed = True
        orig = z3.Solver.check

        def check(self, *a, **kw):
            t0 = time.perf_counter()
            try:
                r = orig(self, *a, **kw)
            finally:
                cls.time_s += time.perf_counter() - t0
                cls.checks += 1
            if r == z3.unknown:
                cls.unknown += 1
            return r

        z3.Solver.check = check  # type: ignore

    @classmethod
    def snapshot(cls):
        return (cls.checks, cls.time_s, cls.unknown)


@dataclass
class XHResult:
    harness: str
    shard: Any = None
    paths: int = 0
    confirmed: int = 0
    ignored: int = 0
    unknown: int = 0
    exhausted: bool = False
    stop_reason: str = ""
    counterexample: Optional[Dict[str, Any]] = None  # {"args":..., "message":..., "traceback":...}
    samples: List[Any] = field(default_factory=list)
    solver_checks: int = 0
    solver_time_s: float = 0.0
    solver_unknown: int = 0
    wall_s: float = 0.0
    cpu_s: float = 0.0
    error: Optional[str] = None  # engine/harness error (exit 2 material)

    def to_json(self):
        d = dict(self.__dict__)
        return d


def _jsonable(v):
    if isinstance(v, (str, int, float, bool)) or v is None:
        return v
    if isinstance(v, (list, tuple)):
        return [_jsonable(x) for x in v]
    if isinstance(v, dict):
        return {str(k): _jsonable(x) for k, x in v.items()}
    if isinstance(v, (set, frozenset)):
        return sorted((_jsonable(x) for x in v), key=repr)
    if isinstance(v, bytes):
        return {"__bytes__": v.decode("latin1")}
    return repr(v)


# cooperative truncation of long native sweeps inside one path: a harness asks sweep_should_stop() in its outer native loop;
# once the path has used its share of the job budget the sweep ends early and the space is reported as NOT exhausted
_PATH_CLOCK = {"start": 0.0, "soft": 1e18, "truncated": False}


def sweep_should_stop() -> bool:
    if time.perf_counter() - _PATH_CLOCK["start"] > _PATH_CLOCK["soft"]:
        _PATH_CLOCK["truncated"] = True
        return True
    return False


class HardTimeout(BaseException):
    """a single path ran far beyond the whole job's budget (BaseException: no harness or code under test catches it)"""


def _hard_alarm(signum, frame):
    raise HardTimeout()


def explore(
    harness: Callable[..., Any],
    *,
    fixed: Optional[Dict[str, Any]] = None,
    budget_s: float = 60.0,
    per_path_timeout: float = 10.0,
    max_paths: int = 10**9,
    n_samples: int = 3,
    reset: Optional[Callable[[], None]] = None,
    name: Optional[str] = None,
    shard: Any = None,
    hard_limit_s: Optional[float] = None,
) -> XHResult:
    """Explore all paths of `harness`; parameters named in `fixed` are concrete, others symbolic.

    Stops at the first counterexample (realised), at exhaustion, or when the budget is used up.
    """
    SolverStats.install()
    fixed = dict(fixed or {})
    sig_full = inspect.signature(harness)
    try:
        import typing
        hints = typing.get_type_hints(harness)
    except Exception:  # noqa
        hints = {}
    sym_params = [p.replace(annotation=hints.get(n, p.annotation)) for n, p in sig_full.parameters.items() if n not in fixed]
    sig = sig_full.replace(parameters=sym_params)
    res = XHResult(harness=name or harness.__name__, shard=shard)
    c0, t0s, u0 = SolverStats.snapshot()
    wall0 = time.perf_counter()
    cpu0 = time.process_time()
    root = RootNode()
    import signal
    # the watchdog is only meant for code that does not terminate: long native sweeps end themselves (sweep_should_stop)
    hard_limit = float(hard_limit_s) if hard_limit_s else 3.0 * float(budget_s) + 600.0
    truncated_paths = 0
    try:
        old_handler = signal.signal(signal.SIGALRM, _hard_alarm)
    except ValueError:          # not in the main thread: no watchdog
        old_handler = None
    while True:
        if res.paths >= max_paths:
            res.stop_reason = "max_paths"
            break
        if time.perf_counter() - wall0 > budget_s:
            res.stop_reason = "budget"
            break
        res.paths += 1
        itr_start = time.process_time()
        space = StateSpace(
            execution_deadline=itr_start + per_path_timeout,
            model_check_timeout=per_path_timeout / 2,
            search_root=root,
        )
        if reset is not None:
            reset()
        status = None
        breakout = False
        if old_handler is not None:
            signal.setitimer(signal.ITIMER_REAL, hard_limit)
        _PATH_CLOCK["start"] = time.perf_counter()
        _PATH_CLOCK["soft"] = max(45.0, 0.5 * float(budget_s))
        _PATH_CLOCK["truncated"] = False
        try:
          with condition_parser([AnalysisKind.PEP316]), Patched(), COMPOSITE_TRACER, NoTracing(), StateSpaceContext(space):
              try:
                  pre_args = gen_args(sig)
                  args = deepcopyext(pre_args, CopyMode.REGULAR, {})
                  with ExceptionFilter() as efilter, ResumedTracing():
                      harness(*args.args, **args.kwargs, **fixed)
                  if efilter.ignore:
                      raise IgnoreAttempt()
                  if efilter.user_exc is not None:
                      exc, tb = efilter.user_exc
                      if isinstance(exc, NotDeterministic):
                          raise NotDeterministic
                      if isinstance(exc, HarnessError):
                          res.error = f"HarnessError: {exc}"
                      with ResumedTracing():
                          space.detach_path(exc)
                          realised = deep_realize(pre_args.arguments)
                          msg = deep_realize(str(exc))
                      res.counterexample = None if isinstance(exc, HarnessError) else {
                          "args": _jsonable(dict(realised)),
                          "exc_type": type(exc).__name__,
                          "message": msg,
                          "traceback": "".join(tb.format()[-12:]),
                      }
                      status = VerificationStatus.REFUTED
                      breakout = True
                  else:
                      status = VerificationStatus.CONFIRMED
                      res.confirmed += 1
                      if len(res.samples) < n_samples:
                          with ResumedTracing():
                              space.detach_path()
                              realised = deep_realize(pre_args.arguments)
                          res.samples.append(_jsonable(dict(realised)))
              except IgnoreAttempt:
                  status = None
                  res.ignored += 1
              except UnexploredPath as e:
                  status = VerificationStatus.UNKNOWN
                  res.unknown += 1
                  if isinstance(e, NotDeterministic):
                      res.error = "NotDeterministic: harness or code under test is not deterministic under CrossHair"
                      breakout = True
              except NotDeterministic:
                  status = VerificationStatus.UNKNOWN
                  res.unknown += 1
                  res.error = "NotDeterministic"
                  breakout = True
              try:
                  _, exhausted = space.bubble_status(CallAnalysis(status))
              except Exception as e:  # engine error
                  res.error = f"bubble_status failed: {e!r}"
                  breakout = True
                  exhausted = False
        except HardTimeout:
            res.error = (f"hard timeout: one path ran longer than {hard_limit:.0f} s "
                         f"(the code under test does not terminate on some input of this space, or the native sweep is far larger than the budget)")
            breakout = True
            exhausted = False
        finally:
            if old_handler is not None:
                signal.setitimer(signal.ITIMER_REAL, 0)
        if _PATH_CLOCK["truncated"]:
            truncated_paths += 1
        if breakout:
            res.stop_reason = "counterexample" if res.counterexample else "error"
            break
        if exhausted:
            res.exhausted = True
            res.stop_reason = "exhausted"
            break
    if old_handler is not None:
        signal.signal(signal.SIGALRM, old_handler)
    if truncated_paths and not res.counterexample and not res.error:
        # some paths ended their native sweep early: the engine's exhaustion certificate does not cover those sweeps
        res.exhausted = False
        res.stop_reason = f"{res.stop_reason}+{truncated_paths}-truncated-sweeps"
    c1, t1s, u1 = SolverStats.snapshot()
    res.solver_checks = c1 - c0
    res.solver_time_s = round(t1s - t0s, 3)
    res.solver_unknown = u1 - u0
    res.wall_s = round(time.perf_counter() - wall0, 3)
    res.cpu_s = round(time.process_time() - cpu0, 3)
    return res


def run_concrete(harness: Callable[..., Any], args: Dict[str, Any]) -> Optional[str]:
    """Replay: run the harness on concrete arguments without CrossHair.

    Returns None when the property held, otherwise a description of the violation.
    Reject (input outside bound) is reported as 'REJECTED' (a non-reproducing counterexample).
    """
    try:
        harness(**args)
    except Reject:
        return "REJECTED"
    except Exception as e:
        return f"{type(e).__name__}: {e}\n" + "".join(traceback.format_exc()[-3000:])
    return None
