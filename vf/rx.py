"""RX engine: Python `re` pattern (subset) -> z3 regular expression.

The pattern is parsed with the stdlib's own parser (re._parser) so that escapes and classes mean exactly what `re`
means; the parse tree is translated to z3.Re terms.  `mode` decides how Unicode-wide categories are approximated:
  "under": \\d -> [0-9]            (a sub-language: sound for  L_emit <= L(pattern))
  "over" : \\d -> [0-9] + all non-ASCII characters (a super-language: sound for  L(pattern) <= L_shape)
Anything outside the subset raises Untranslatable (-> inconclusive).
"""
from __future__ import annotations

import re
import re._parser as sre_parse  # type: ignore
import re._constants as sre_c  # type: ignore

import z3


class Untranslatable(Exception):
    pass


MAXCH = 0x2FFFF   # z3's default character range upper bound


def _ch(c: int):
    return z3.StringVal(chr(c)) if c < 0x80 else z3.Unit(z3.CharVal(c)) if hasattr(z3, "CharVal") else z3.StringVal(chr(c))


def _range(lo: int, hi: int):
    return z3.Range(_ch(lo), _ch(hi))


def any_char():
    return z3.AllChar(z3.ReSort(z3.StringSort()))


def _category(cat, mode):
    if cat == sre_c.CATEGORY_DIGIT:
        r = _range(ord("0"), ord("9"))
        return z3.Union(r, _range(0x80, MAXCH)) if mode == "over" else r
    if cat == sre_c.CATEGORY_SPACE:
        r = z3.Union(*[z3.Re(c) for c in " \t\n\r\f\v"])
        return z3.Union(r, _range(0x80, MAXCH)) if mode == "over" else r
    if cat == sre_c.CATEGORY_WORD:
        r = z3.Union(_range(ord("a"), ord("z")), _range(ord("A"), ord("Z")), _range(ord("0"), ord("9")), z3.Re("_"))
        return z3.Union(r, _range(0x80, MAXCH)) if mode == "over" else r
    raise Untranslatable(f"category {cat}")


def _translate(items, mode, flags):
    parts = []
    for op, av in items:
        if op == sre_c.LITERAL:
            parts.append(z3.Re(_ch(av)))
        elif op == sre_c.NOT_LITERAL:
            parts.append(z3.Diff(any_char(), z3.Re(_ch(av))))
        elif op == sre_c.ANY:
            if flags & re.DOTALL:
                parts.append(any_char())
            else:
                parts.append(z3.Diff(any_char(), z3.Re("\n")))
        elif op == sre_c.IN:
            neg = False
            alts = []
            for o2, a2 in av:
                if o2 == sre_c.NEGATE:
                    neg = True
                elif o2 == sre_c.LITERAL:
                    alts.append(z3.Re(_ch(a2)))
                elif o2 == sre_c.RANGE:
                    alts.append(_range(a2[0], a2[1]))
                elif o2 == sre_c.CATEGORY:
                    if neg:
                        raise Untranslatable("category inside a negated class")
                    alts.append(_category(a2, mode))
                else:
                    raise Untranslatable(f"class item {o2}")
            u = alts[0] if len(alts) == 1 else z3.Union(*alts)
            parts.append(z3.Diff(any_char(), u) if neg else u)
        elif op in (sre_c.MAX_REPEAT, sre_c.MIN_REPEAT):
            lo, hi, sub = av
            r = _translate(sub, mode, flags)
            if hi == sre_c.MAXREPEAT:
                if lo == 0:
                    parts.append(z3.Star(r))
                elif lo == 1:
                    parts.append(z3.Plus(r))
                else:
                    parts.append(z3.Concat(*([r] * lo + [z3.Star(r)])))
            else:
                parts.append(z3.Loop(r, lo, hi))
        elif op == sre_c.SUBPATTERN:
            parts.append(_translate(av[3], mode, flags))
        elif op == sre_c.BRANCH:
            alts = [_translate(b, mode, flags) for b in av[1]]
            parts.append(z3.Union(*alts) if len(alts) > 1 else alts[0])
        else:
            raise Untranslatable(f"regex construct {op}")
    if not parts:
        return z3.Re("")
    return parts[0] if len(parts) == 1 else z3.Concat(*parts)


def to_z3(pattern: str, flags: int = 0, mode: str = "under"):
    if not isinstance(pattern, str):
        raise Untranslatable("bytes pattern")
    if flags & (re.IGNORECASE | re.VERBOSE | re.MULTILINE | re.LOCALE):
        raise Untranslatable(f"flags {flags}")
    try:
        tree = sre_parse.parse(pattern, flags)
    except Exception as e:  # noqa
        raise Untranslatable(f"cannot parse pattern: {e}")
    return _translate(list(tree), mode, flags)
