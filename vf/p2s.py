"""P2S engine: Python-AST -> z3.  A small forking symbolic interpreter for leaf kernels.

The function's *current* source is read with inspect.getsource at run time, parsed with `ast` and executed
over z3 terms.  Control flow on symbolic conditions forks (both sides checked for feasibility with z3); each
completed path yields (path condition, outcome) where outcome is a returned value or a raised exception class.
Property queries are then discharged per path:   pc  AND  NOT property(outcome)   must be unsat.

Supported subset (anything else raises Untranslatable -> the check reports *inconclusive*, never "pass"):
  ints (mathematical z3 Int; Python ints do not wrap), bools, + - * (one side constant or both symbolic: kept as is),
  // % divmod by a positive constant (relational encoding a == k*q + r, 0 <= r < k: stays linear),
  comparisons, and/or/not, if/elif/else, while, for over concrete-length sequences, break/continue,
  tuples/lists of symbolic values, indexing a concrete list/dict with a symbolic key (ITE chain + IndexError/KeyError fork),
  strings as ropes of cells (concrete text | symbolic code point | decimal rendering of a symbolic int),
  str concatenation, repetition by a concrete count, slicing with concrete bounds, f-strings, len, int(str), isinstance,
  any/all/min/max, raise/try/except (real exception classes, real subclass relation), calls into other functions of the
  same package (interpreted recursively), registered stubs for environment calls.
"""
from __future__ import annotations

import ast
import builtins
import inspect
import textwrap
import time
from typing import Any, Callable, Dict, List, Optional, Tuple

import z3


class Untranslatable(Exception):
    pass


class PathLimit(Exception):
    pass


class Cell:
    """one symbolic character: a code point (z3 Int), or `table[idx]` for a concrete table of 1-char strings
    and a symbolic index already known to be in range (kept structured so that inverse-table lookups stay linear)"""
    __slots__ = ("_code", "lookup")

    def __init__(self, code=None, lookup=None):
        self._code = code
        self.lookup = lookup   # (idx_term, tuple_of_chars) or None

    @property
    def code(self):
        if self._code is None:
            idx, table = self.lookup
            acc = z3.IntVal(ord(table[-1]))
            for k in range(len(table) - 2, -1, -1):
                acc = z3.If(idx == k, z3.IntVal(ord(table[k])), acc)
            self._code = acc
        return self._code

    def eq_char(self, ch: str):
        if self.lookup is not None:
            idx, table = self.lookup
            ks = [k for k, t in enumerate(table) if t == ch]
            if not ks:
                return False
            return z3.Or(*[idx == k for k in ks]) if len(ks) > 1 else idx == ks[0]
        return self.code == ord(ch)

    def eq_cell(self, other: "Cell"):
        if self.lookup is not None and other.lookup is not None and self.lookup[1] == other.lookup[1] \
                and len(set(self.lookup[1])) == len(self.lookup[1]):
            return self.lookup[0] == other.lookup[0]
        return self.code == other.code

    def __repr__(self):
        return f"Cell({self.lookup[0] if self.lookup else self._code})"


class Dec:
    """canonical decimal rendering of a symbolic int (str(n)); may be negative ('-' prefix)"""
    __slots__ = ("n", "fmt")

    def __init__(self, n, fmt=""):
        self.n = n
        self.fmt = fmt

    def __repr__(self):
        return f"Dec({self.n}{':' + self.fmt if self.fmt else ''})"


class SStr:
    """rope: tuple of segments; segment = str (non-empty) | Cell | Dec"""
    __slots__ = ("segs",)

    def __init__(self, segs=()):
        out: List[Any] = []
        for s in segs:
            if isinstance(s, str):
                if not s:
                    continue
                if out and isinstance(out[-1], str):
                    out[-1] += s
                else:
                    out.append(s)
            else:
                out.append(s)
        self.segs = tuple(out)

    @staticmethod
    def of(v) -> "SStr":
        if isinstance(v, SStr):
            return v
        if isinstance(v, str):
            return SStr((v,))
        raise Untranslatable(f"not a string: {v!r}")

    def is_concrete(self):
        return all(isinstance(s, str) for s in self.segs)

    def concrete(self) -> str:
        assert self.is_concrete()
        return "".join(self.segs)

    def cells(self) -> List[Any]:
        """per-character view; only when no Dec segment"""
        out = []
        for s in self.segs:
            if isinstance(s, str):
                out.extend(s)
            elif isinstance(s, Cell):
                out.append(s)
            else:
                raise Untranslatable("per-character access to a decimal rendering")
        return out

    def has_dec(self):
        return any(isinstance(s, Dec) for s in self.segs)

    def __add__(self, o):
        return SStr(self.segs + SStr.of(o).segs)

    def __radd__(self, o):
        return SStr(SStr.of(o).segs + self.segs)

    def __repr__(self):
        return "SStr" + repr(self.segs)


class SObj:
    """opaque object produced by a stub (attributes are symbolic values)"""

    def __init__(self, kind, **attrs):
        self.kind = kind
        self.attrs = attrs

    def __repr__(self):
        return f"SObj({self.kind}, {self.attrs})"


class Opaque:
    """value the property does not depend on (e.g. exception message)"""

    def __repr__(self):
        return "Opaque"


class PyRaise(Exception):
    """a Python-level exception raised by the interpreted code"""

    def __init__(self, cls, args=(), cause=None):
        self.cls = cls
        self.eargs = args
        self.cause = cause


class _Return(Exception):
    def __init__(self, v):
        self.v = v


class _Break(Exception):
    pass


class _Continue(Exception):
    pass


def is_sym(v):
    return isinstance(v, (z3.ExprRef,))


def to_z3_int(v):
    if isinstance(v, bool):
        return z3.IntVal(1 if v else 0)
    if isinstance(v, int):
        return z3.IntVal(v)
    if isinstance(v, z3.ArithRef):
        return v
    if isinstance(v, z3.BoolRef):
        return z3.If(v, z3.IntVal(1), z3.IntVal(0))
    raise Untranslatable(f"not an int: {v!r}")


class Outcome:
    def __init__(self, pc, kind, value=None, exc=None, trace=None):
        self.pc = pc            # list of z3 Bool
        self.kind = kind        # "return" | "raise"
        self.value = value
        self.exc = exc          # exception class when kind == "raise"
        self.trace = trace or []

    def __repr__(self):
        return f"Outcome({self.kind}, {self.value if self.kind == 'return' else self.exc.__name__}, |pc|={len(self.pc)})"


class Engine:
    """explores all feasible paths of fn(*args)"""

    def __init__(self, stubs: Optional[Dict[Any, Callable]] = None, max_paths=5000, loop_bound=200, timeout_ms=20000,
                 package_prefix="ak"):
        self.stubs = stubs or {}
        self.max_paths = max_paths
        self.loop_bound = loop_bound
        self.timeout_ms = timeout_ms
        self.package_prefix = package_prefix
        self.queries = 0
        self.solver_time = 0.0
        self.fresh_id = 0
        self.functions_seen: Dict[str, str] = {}
        self._ast_cache: Dict[Any, ast.FunctionDef] = {}

    # ---- solver ---------------------------------------------------------------------------------
    def check(self, assertions) -> str:
        s = z3.Solver()
        s.set("timeout", self.timeout_ms)
        s.add(*assertions)
        t0 = time.perf_counter()
        r = s.check()
        self.solver_time += time.perf_counter() - t0
        self.queries += 1
        self.last_model = s.model() if r == z3.sat else None
        return str(r)

    def fresh_int(self, hint="t"):
        self.fresh_id += 1
        return z3.Int(f"{hint}!{self.fresh_id}")

    # ---- path exploration -----------------------------------------------------------------------
    def explore(self, fn, args: Tuple, assumptions: List[Any] = ()) -> List[Outcome]:
        outcomes: List[Outcome] = []
        worklist: List[List[bool]] = [[]]
        while worklist:
            if len(outcomes) >= self.max_paths:
                raise PathLimit(f"more than {self.max_paths} paths")
            decisions = worklist.pop()
            self._decisions = decisions
            self._pos = 0
            self._pc = list(assumptions)
            self._worklist = worklist
            self.fresh_id = 0          # deterministic naming per path
            try:
                v = self.call_function(fn, list(args), {})
                outcomes.append(Outcome(list(self._pc), "return", value=v))
            except PyRaise as e:
                outcomes.append(Outcome(list(self._pc), "raise", exc=e.cls, value=e))
        return outcomes

    def explore_native(self, pyfunc, assumptions: List[Any] = ()) -> List[Outcome]:
        """same path exploration for a native Python function pyfunc(engine) that forks through engine.branch()/truth()"""
        outcomes: List[Outcome] = []
        worklist: List[List[bool]] = [[]]
        while worklist:
            if len(outcomes) >= self.max_paths:
                raise PathLimit(f"more than {self.max_paths} paths")
            self._decisions = worklist.pop()
            self._pos = 0
            self._pc = list(assumptions)
            self._worklist = worklist
            try:
                v = pyfunc(self)
                outcomes.append(Outcome(list(self._pc), "return", value=v))
            except PyRaise as e:
                outcomes.append(Outcome(list(self._pc), "raise", exc=e.cls, value=e))
        return outcomes

    def branch(self, cond) -> bool:
        """fork on a z3 Bool"""
        cond = z3.simplify(cond)
        if z3.is_true(cond):
            return True
        if z3.is_false(cond):
            return False
        if self._pos < len(self._decisions):
            d = self._decisions[self._pos]
            self._pos += 1
            self._pc.append(cond if d else z3.Not(cond))
            return d
        rt = self.check(self._pc + [cond])
        rf = self.check(self._pc + [z3.Not(cond)])
        if rt == "unknown" or rf == "unknown":
            raise Untranslatable("solver returned unknown on a branch feasibility query")
        if rt == "sat" and rf == "sat":
            self._worklist.append(self._decisions[:self._pos] + [False])
            d = True
        elif rt == "sat":
            d = True
        elif rf == "sat":
            d = False
        else:
            raise Untranslatable("infeasible path reached (inconsistent assumptions)")
        self._decisions = self._decisions[:self._pos] + [d]
        self._pos += 1
        self._pc.append(cond if d else z3.Not(cond))
        return d

    def truth(self, v) -> bool:
        if isinstance(v, z3.BoolRef):
            return self.branch(v)
        if isinstance(v, z3.ArithRef):
            return self.branch(v != 0)
        if isinstance(v, SStr):
            if any(isinstance(s, (str, Cell, Dec)) for s in v.segs):
                return True
            return False
        if isinstance(v, (SObj, Opaque)):
            return True
        return bool(v)

    # ---- functions ------------------------------------------------------------------------------
    def get_ast(self, fn) -> ast.FunctionDef:
        f = fn.__func__ if isinstance(fn, (classmethod, staticmethod)) or inspect.ismethod(fn) else fn
        if f in self._ast_cache:
            return self._ast_cache[f]
        try:
            src = textwrap.dedent(inspect.getsource(f))
        except (OSError, TypeError) as e:
            raise Untranslatable(f"no source for {fn!r}: {e}")
        tree = ast.parse(src)
        node = tree.body[0]
        if not isinstance(node, ast.FunctionDef):
            raise Untranslatable(f"not a function: {fn!r}")
        self._ast_cache[f] = node
        import hashlib
        self.functions_seen[f"{f.__module__}.{f.__qualname__}"] = hashlib.sha256(src.encode()).hexdigest()[:16]
        return node

    def call_function(self, fn, args: List[Any], kwargs: Dict[str, Any]):
        bound_self = None
        f = fn
        if inspect.ismethod(fn):
            bound_self = fn.__self__
            f = fn.__func__
        node = self.get_ast(f)
        params = node.args
        names = [a.arg for a in params.posonlyargs + params.args]
        env: Dict[str, Any] = {}
        actual = ([bound_self] if bound_self is not None else []) + list(args)
        if len(actual) > len(names):
            raise Untranslatable("too many positional args")
        for n, v in zip(names, actual):
            env[n] = v
        defaults = params.defaults
        for i, d in enumerate(defaults):
            n = names[len(names) - len(defaults) + i]
            if n not in env and n not in kwargs:
                env[n] = self.eval(d, {"__globals__": f.__globals__})
        for k, v in kwargs.items():
            if k not in names and k not in [a.arg for a in params.kwonlyargs]:
                raise Untranslatable(f"unexpected kwarg {k}")
            env[k] = v
        for a, d in zip(params.kwonlyargs, params.kw_defaults):
            if a.arg not in env:
                if d is None:
                    raise Untranslatable("missing kwonly arg")
                env[a.arg] = self.eval(d, {"__globals__": f.__globals__})
        for n in names:
            if n not in env:
                raise Untranslatable(f"missing argument {n}")
        env["__globals__"] = f.__globals__
        try:
            self.exec_block(node.body, env)
        except _Return as r:
            return r.v
        return None

    # ---- statements -----------------------------------------------------------------------------
    def exec_block(self, stmts, env):
        for s in stmts:
            self.exec_stmt(s, env)

    def exec_stmt(self, s, env):
        if isinstance(s, ast.Expr):
            if isinstance(s.value, ast.Constant):
                return
            self.eval(s.value, env)
        elif isinstance(s, ast.Assign):
            v = self.eval(s.value, env)
            for t in s.targets:
                self.assign(t, v, env)
        elif isinstance(s, ast.AugAssign):
            if isinstance(s.target, ast.Attribute):
                o = self.eval(s.target.value, env)
                if not isinstance(o, SObj) or s.target.attr not in o.attrs:
                    raise Untranslatable("augmented assignment to an attribute of a non-stub object")
                o.attrs[s.target.attr] = self.binop(s.op, o.attrs[s.target.attr], self.eval(s.value, env))
                return
            if not isinstance(s.target, ast.Name):
                raise Untranslatable("augmented assignment to non-name")
            cur = self.eval(ast.Name(id=s.target.id, ctx=ast.Load()), env)
            v = self.binop(s.op, cur, self.eval(s.value, env))
            env[s.target.id] = v
        elif isinstance(s, ast.With):
            for item in s.items:
                cm = self.eval(item.context_expr, env)
                if not (hasattr(cm, "acquire") and hasattr(cm, "release")):
                    raise Untranslatable("with-statement on something that is not a lock")
                if item.optional_vars is not None:
                    raise Untranslatable("with ... as")
            self.exec_block(s.body, env)      # sequential semantics: a lock is a no-op
        elif isinstance(s, ast.Return):
            raise _Return(self.eval(s.value, env) if s.value is not None else None)
        elif isinstance(s, ast.If):
            if self.truth(self.eval(s.test, env)):
                self.exec_block(s.body, env)
            else:
                self.exec_block(s.orelse, env)
        elif isinstance(s, ast.While):
            n = 0
            broke = False
            while self.truth(self.eval(s.test, env)):
                n += 1
                if n > self.loop_bound:
                    raise Untranslatable(f"loop bound {self.loop_bound} exceeded (unwinding assertion failed)")
                try:
                    self.exec_block(s.body, env)
                except _Break:
                    broke = True
                    break
                except _Continue:
                    continue
            if not broke:
                self.exec_block(s.orelse, env)
        elif isinstance(s, ast.For):
            it = self.iterate(self.eval(s.iter, env))
            broke = False
            for item in it:
                self.assign(s.target, item, env)
                try:
                    self.exec_block(s.body, env)
                except _Break:
                    broke = True
                    break
                except _Continue:
                    continue
            if not broke:
                self.exec_block(s.orelse, env)
        elif isinstance(s, ast.Break):
            raise _Break()
        elif isinstance(s, ast.Continue):
            raise _Continue()
        elif isinstance(s, ast.Pass):
            return
        elif isinstance(s, ast.Raise):
            if s.exc is None:
                cur = env.get("__handling__")
                if cur is None:
                    raise Untranslatable("bare raise outside handler")
                raise cur
            exc = self.eval(s.exc, env)
            cause = self.eval(s.cause, env) if s.cause is not None else None
            if isinstance(exc, PyRaise):
                exc.cause = cause
                raise exc
            if isinstance(exc, type) and issubclass(exc, BaseException):
                raise PyRaise(exc, (), cause)
            raise Untranslatable(f"raise of {exc!r}")
        elif isinstance(s, ast.Try):
            try:
                try:
                    self.exec_block(s.body, env)
                except PyRaise as e:
                    for h in s.handlers:
                        if h.type is None:
                            match = True
                        else:
                            t = self.eval(h.type, env)
                            match = issubclass(e.cls, t)
                        if match:
                            if h.name:
                                env[h.name] = e
                            old = env.get("__handling__")
                            env["__handling__"] = e
                            try:
                                self.exec_block(h.body, env)
                            finally:
                                env["__handling__"] = old
                            break
                    else:
                        raise
                else:
                    self.exec_block(s.orelse, env)
            finally:
                if s.finalbody:
                    self.exec_block(s.finalbody, env)
        elif isinstance(s, ast.Assert):
            if not self.truth(self.eval(s.test, env)):
                raise PyRaise(AssertionError)
        else:
            raise Untranslatable(f"statement {type(s).__name__}")

    def assign(self, target, v, env):
        if isinstance(target, ast.Name):
            env[target.id] = v
        elif isinstance(target, ast.Attribute):
            o = self.eval(target.value, env)
            if not isinstance(o, SObj):
                raise Untranslatable("assignment to an attribute of a non-stub object")
            o.attrs[target.attr] = v
        elif isinstance(target, (ast.Tuple, ast.List)):
            items = self.iterate(v)
            if len(items) != len(target.elts):
                raise PyRaise(ValueError)
            for t, x in zip(target.elts, items):
                self.assign(t, x, env)
        else:
            raise Untranslatable(f"assignment target {type(target).__name__}")

    def iterate(self, v) -> List[Any]:
        if isinstance(v, SStr):
            return [SStr((c,)) if not isinstance(c, str) else c for c in v.cells()]
        if isinstance(v, (list, tuple, range, str, dict)):
            return list(v)
        if isinstance(v, (set, frozenset)):
            return sorted(v, key=repr)
        raise Untranslatable(f"iteration over {type(v).__name__}")

    # ---- expressions ----------------------------------------------------------------------------
    def eval(self, e, env):
        m = getattr(self, "e_" + type(e).__name__, None)
        if m is None:
            raise Untranslatable(f"expression {type(e).__name__}")
        return m(e, env)

    def e_Constant(self, e, env):
        return e.value

    def e_Name(self, e, env):
        if e.id in env:
            return env[e.id]
        g = env["__globals__"]
        if e.id in g:
            return g[e.id]
        if hasattr(builtins, e.id):
            return getattr(builtins, e.id)
        raise Untranslatable(f"unknown name {e.id}")

    def e_Tuple(self, e, env):
        return tuple(self.eval(x, env) for x in e.elts)

    def e_List(self, e, env):
        return [self.eval(x, env) for x in e.elts]

    def e_JoinedStr(self, e, env):
        segs: List[Any] = []
        for v in e.values:
            if isinstance(v, ast.Constant):
                segs.append(v.value)
            else:
                val = self.eval(v.value, env)
                spec = ""
                if v.format_spec is not None:
                    fs = self.e_JoinedStr(v.format_spec, env)
                    fs = SStr.of(fs)
                    if not fs.is_concrete():
                        raise Untranslatable("symbolic format spec")
                    spec = fs.concrete()
                if v.conversion not in (-1, 115):  # !r / !a : only used in messages
                    segs.append(Cell(self.fresh_int("repr")))
                    continue
                segs.extend(self.format_value(val, spec).segs)
        return SStr(segs)

    def format_value(self, val, spec) -> SStr:
        if isinstance(val, bool):
            return SStr((format(val, spec),))
        if isinstance(val, (int, str, float)) and not is_sym(val):
            return SStr((format(val, spec),))
        if isinstance(val, SStr):
            if spec:
                raise Untranslatable("format spec on symbolic string")
            return val
        if isinstance(val, z3.ArithRef):
            return SStr((Dec(val, spec),))
        if isinstance(val, (Opaque, SObj, type, list, tuple, dict, PyRaise)) or callable(val):
            # only ever used inside diagnostic messages: content is irrelevant but must not be confused with real text
            return SStr((Cell(self.fresh_int("opaque")),))
        raise Untranslatable(f"formatting of {val!r}")

    def e_Attribute(self, e, env):
        o = self.eval(e.value, env)
        if isinstance(o, SObj):
            if e.attr in o.attrs:
                return o.attrs[e.attr]
            raise Untranslatable(f"attribute {e.attr} of stub object {o.kind}")
        if isinstance(o, SStr) or is_sym(o) or isinstance(o, str):
            return ("__method__", o, e.attr)
        if isinstance(o, (list, dict, tuple)) and e.attr in ("append", "keys", "values", "items", "get", "join", "extend"):
            return ("__method__", o, e.attr)
        try:
            return getattr(o, e.attr)
        except AttributeError:
            raise PyRaise(AttributeError)

    def e_IfExp(self, e, env):
        return self.eval(e.body, env) if self.truth(self.eval(e.test, env)) else self.eval(e.orelse, env)

    def e_BoolOp(self, e, env):
        if isinstance(e.op, ast.And):
            v = True
            for x in e.values:
                v = self.eval(x, env)
                if not self.truth(v):
                    return v if not is_sym(v) else False
            return v if not is_sym(v) else True
        else:
            v = False
            for x in e.values:
                v = self.eval(x, env)
                if self.truth(v):
                    return v if not is_sym(v) else True
            return v if not is_sym(v) else False

    def e_UnaryOp(self, e, env):
        v = self.eval(e.operand, env)
        if isinstance(e.op, ast.Not):
            return not self.truth(v)
        if isinstance(e.op, ast.USub):
            return -to_z3_int(v) if is_sym(v) else -v
        if isinstance(e.op, ast.UAdd):
            return v
        raise Untranslatable("unary op")

    def e_BinOp(self, e, env):
        return self.binop(e.op, self.eval(e.left, env), self.eval(e.right, env))

    def binop(self, op, a, b):
        a_str = isinstance(a, (str, SStr))
        b_str = isinstance(b, (str, SStr))
        if isinstance(op, ast.Add):
            if a_str and b_str:
                if isinstance(a, str) and isinstance(b, str):
                    return a + b
                return SStr.of(a) + SStr.of(b)
            if a_str or b_str:
                raise PyRaise(TypeError)
            if isinstance(a, (list, tuple)) and isinstance(b, type(a)):
                return a + b
            if is_sym(a) or is_sym(b):
                return to_z3_int(a) + to_z3_int(b)
            return a + b
        if isinstance(op, ast.Sub):
            if is_sym(a) or is_sym(b):
                return to_z3_int(a) - to_z3_int(b)
            return a - b
        if isinstance(op, ast.Mult):
            if a_str or b_str:
                s, n = (a, b) if a_str else (b, a)
                if is_sym(n):
                    raise Untranslatable("string repetition by a symbolic count")
                if isinstance(s, str):
                    return s * n
                return SStr(s.segs * max(0, n))
            if is_sym(a) or is_sym(b):
                return to_z3_int(a) * to_z3_int(b)
            return a * b
        if isinstance(op, (ast.FloorDiv, ast.Mod)):
            if is_sym(a) or is_sym(b):
                q, r = self.divmod(a, b)
                return q if isinstance(op, ast.FloorDiv) else r
            if isinstance(op, ast.Mod) and isinstance(a, str):
                raise Untranslatable("% formatting")
            return a // b if isinstance(op, ast.FloorDiv) else a % b
        if isinstance(op, ast.Pow) and not is_sym(a) and not is_sym(b):
            return a ** b
        if isinstance(op, (ast.LShift, ast.RShift, ast.BitOr, ast.BitAnd)) and not is_sym(a) and not is_sym(b):
            return {ast.LShift: lambda: a << b, ast.RShift: lambda: a >> b, ast.BitOr: lambda: a | b, ast.BitAnd: lambda: a & b}[type(op)]()
        raise Untranslatable(f"binary op {type(op).__name__} on {a!r}, {b!r}")

    def divmod(self, a, b):
        if is_sym(b):
            raise Untranslatable("division by a symbolic divisor")
        if not isinstance(b, int) or isinstance(b, bool):
            raise Untranslatable("division by non-int")
        if b == 0:
            raise PyRaise(ZeroDivisionError)
        a = to_z3_int(a)
        q = self.fresh_int("q")
        r = self.fresh_int("r")
        # Python floor division: a == b*q + r, r has the sign of b and |r| < |b|  (defines q, r uniquely)
        self._pc.append(a == b * q + r)
        if b > 0:
            self._pc.append(z3.And(r >= 0, r < b))
        else:
            self._pc.append(z3.And(r <= 0, r > b))
        return q, r

    def e_Compare(self, e, env):
        left = self.eval(e.left, env)
        result = None
        for op, rn in zip(e.ops, e.comparators):
            right = self.eval(rn, env)
            c = self.compare(op, left, right)
            if result is None:
                result = c
            else:
                if not is_sym(result) and not is_sym(c):
                    result = result and c
                else:
                    result = z3.And(self.as_bool(result), self.as_bool(c))
            if result is False:
                return False
            left = right
        return result

    def as_bool(self, v):
        if isinstance(v, z3.BoolRef):
            return v
        if isinstance(v, bool):
            return z3.BoolVal(v)
        raise Untranslatable("bool expected")

    def pytype(self, v):
        if isinstance(v, z3.BoolRef):
            return bool
        if isinstance(v, z3.ArithRef):
            return int
        if isinstance(v, SStr):
            return str
        return type(v)

    def compare(self, op, a, b):
        if isinstance(op, (ast.Is, ast.IsNot)):
            if is_sym(a) or is_sym(b) or isinstance(a, SStr) or isinstance(b, SStr):
                same = False if (a is None or b is None) else None
                if same is None:
                    raise Untranslatable("identity of symbolic values")
            else:
                same = a is b
            return same if isinstance(op, ast.Is) else not same
        if isinstance(op, (ast.In, ast.NotIn)):
            r = self.contains(b, a)
            if isinstance(op, ast.NotIn):
                return z3.Not(r) if is_sym(r) else not r
            return r
        if isinstance(op, (ast.Eq, ast.NotEq)):
            r = self.equals(a, b)
            if isinstance(op, ast.NotEq):
                return z3.Not(r) if is_sym(r) else not r
            return r
        # ordering
        ta, tb = self.pytype(a), self.pytype(b)
        if ta in (int, bool) and tb in (int, bool):
            if is_sym(a) or is_sym(b):
                x, y = to_z3_int(a), to_z3_int(b)
                return {ast.Lt: x < y, ast.LtE: x <= y, ast.Gt: x > y, ast.GtE: x >= y}[type(op)]
            return {ast.Lt: a < b, ast.LtE: a <= b, ast.Gt: a > b, ast.GtE: a >= b}[type(op)]
        if ta is tb and not is_sym(a) and not isinstance(a, SStr) and not isinstance(b, SStr):
            return {ast.Lt: lambda: a < b, ast.LtE: lambda: a <= b, ast.Gt: lambda: a > b, ast.GtE: lambda: a >= b}[type(op)]()
        if (ta in (int, bool, float)) != (tb in (int, bool, float)):
            raise PyRaise(TypeError)
        raise Untranslatable(f"ordering of {a!r} and {b!r}")

    def equals(self, a, b):
        ta, tb = self.pytype(a), self.pytype(b)
        num = (int, bool)
        if ta in num and tb in num:
            if is_sym(a) or is_sym(b):
                return to_z3_int(a) == to_z3_int(b)
            return a == b
        if ta is str and tb is str:
            return self.str_eq(SStr.of(a), SStr.of(b))
        if (ta is str) != (tb is str):
            return False
        if ta in (tuple, list) and tb is ta:
            if len(a) != len(b):
                return False
            acc = True
            for x, y in zip(a, b):
                r = self.equals(x, y)
                if r is False:
                    return False
                if r is not True:
                    acc = r if acc is True else z3.And(acc, r)
            return acc
        if ta in (tuple, list) or tb in (tuple, list):
            return False
        if is_sym(a) or is_sym(b):
            return False if (a is None or b is None) else self._unt("equality of mixed symbolic values")
        return a == b

    def _unt(self, msg):
        raise Untranslatable(msg)

    def str_eq(self, a: SStr, b: SStr):
        if a.is_concrete() and b.is_concrete():
            return a.concrete() == b.concrete()
        if a.has_dec() or b.has_dec():
            # decide by a concrete first-character mismatch where possible
            fa = a.segs[0] if a.segs else None
            fb = b.segs[0] if b.segs else None
            if fa is None or fb is None:
                return (fa is None) and (fb is None)  # Dec/Cell segments are never empty
            if isinstance(fa, str) and isinstance(fb, str) and fa[0] != fb[0]:
                return False
            if isinstance(fa, str) and isinstance(fb, Dec) and not (fa[0].isdigit() or fa[0] == "-"):
                return False
            if isinstance(fb, str) and isinstance(fa, Dec) and not (fb[0].isdigit() or fb[0] == "-"):
                return False
            raise Untranslatable(f"string equality involving a decimal rendering: {a} == {b}")
        ca, cb = a.cells(), b.cells()
        if len(ca) != len(cb):
            return False
        conj = []
        for x, y in zip(ca, cb):
            if isinstance(x, str) and isinstance(y, str):
                if x != y:
                    return False
                continue
            if isinstance(x, str):
                r = y.eq_char(x)
            elif isinstance(y, str):
                r = x.eq_char(y)
            else:
                r = x.eq_cell(y)
            if r is False:
                return False
            conj.append(r)
        return z3.And(*conj) if len(conj) != 1 else conj[0]

    def contains(self, container, item):
        if isinstance(container, ("".__class__, SStr)):
            raise Untranslatable("substring test")
        if isinstance(container, dict):
            container = list(container.keys())
        if isinstance(container, (list, tuple, set, frozenset)):
            if not is_sym(item) and not isinstance(item, SStr) and not isinstance(item, (list, tuple)):
                try:
                    return item in container
                except TypeError:
                    raise PyRaise(TypeError)
            if isinstance(item, (list, tuple)) and isinstance(container, (set, frozenset, dict)):
                if isinstance(item, list):
                    raise PyRaise(TypeError)  # unhashable
            disj = []
            for c in (sorted(container, key=repr) if isinstance(container, (set, frozenset)) else container):
                r = self.equals(item, c)
                if r is True:
                    return True
                if r is not False:
                    disj.append(r)
            if not disj:
                return False
            return z3.Or(*disj) if len(disj) > 1 else disj[0]
        raise Untranslatable(f"membership in {type(container).__name__}")

    def e_Subscript(self, e, env):
        o = self.eval(e.value, env)
        if isinstance(e.slice, ast.Slice):
            lo = self.eval(e.slice.lower, env) if e.slice.lower is not None else None
            hi = self.eval(e.slice.upper, env) if e.slice.upper is not None else None
            st = self.eval(e.slice.step, env) if e.slice.step is not None else None
            if any(is_sym(x) for x in (lo, hi, st)):
                raise Untranslatable("slice with symbolic bounds")
            if isinstance(o, SStr):
                if o.has_dec():
                    # only whole-segment slices are supported on ropes with decimal renderings
                    if st is None and hi is None and isinstance(lo, int) and lo >= 0:
                        segs = list(o.segs)
                        k = lo
                        while k > 0 and segs:
                            s0 = segs[0]
                            if isinstance(s0, str):
                                if len(s0) > k:
                                    segs[0] = s0[k:]
                                    k = 0
                                else:
                                    k -= len(s0)
                                    segs.pop(0)
                            elif isinstance(s0, Cell):
                                segs.pop(0)
                                k -= 1
                            else:
                                raise Untranslatable("slice cutting through a decimal rendering")
                        return SStr(segs)
                    raise Untranslatable("slice of a rope with a decimal rendering")
                return SStr(o.cells()[slice(lo, hi, st)])
            return o[slice(lo, hi, st)]
        idx = self.eval(e.slice, env)
        return self.getitem(o, idx)

    def getitem(self, o, idx):
        if isinstance(o, SStr):
            if is_sym(idx):
                raise Untranslatable("symbolic index into symbolic string")
            cs = o.cells()
            try:
                c = cs[idx]
            except IndexError:
                raise PyRaise(IndexError)
            return c if isinstance(c, str) else SStr((c,))
        if isinstance(o, dict):
            if isinstance(idx, SStr) and len(idx.segs) == 1 and isinstance(idx.segs[0], Cell) and idx.segs[0].lookup is not None:
                # key is table[i]: compose the two tables (keeps index arithmetic linear)
                i, table = idx.segs[0].lookup
                miss = [k for k, t in enumerate(table) if t not in o]
                if miss:
                    if self.branch(z3.Or(*[i == k for k in miss])):
                        raise PyRaise(KeyError)
                hit = [k for k, t in enumerate(table) if t in o]
                vals = [o[table[k]] for k in hit]
                if all(isinstance(v, int) and not isinstance(v, bool) and v == k for v, k in zip(vals, hit)):
                    return i
                return self.ite_chain([(i == k, v) for k, v in zip(hit, vals)])
            if isinstance(idx, SStr) or is_sym(idx):
                # symbolic key into a concrete dict: ITE chain over the keys + KeyError fork
                keys = list(o.keys())
                conds = [self.equals(idx, k) for k in keys]
                live = [(c, k) for c, k in zip(conds, keys) if c is not False]
                for c, k in live:
                    if c is True:
                        return o[k]
                any_hit = z3.Or(*[c for c, _ in live]) if live else z3.BoolVal(False)
                if not self.branch(any_hit):
                    raise PyRaise(KeyError)
                return self.ite_chain([(c, o[k]) for c, k in live])
            try:
                return o[idx]
            except KeyError:
                raise PyRaise(KeyError)
            except TypeError:
                raise PyRaise(TypeError)
        if isinstance(o, (list, tuple, str)):
            if is_sym(idx):
                n = len(o)
                i = to_z3_int(idx)
                if not self.branch(z3.And(i >= -n, i < n)):
                    raise PyRaise(IndexError)
                if not isinstance(o, str) and all(isinstance(x, str) and len(x) == 1 for x in o) or isinstance(o, str):
                    if self.branch(i < 0):
                        i = i + n
                    return SStr((Cell(lookup=(i, tuple(o))),))
                norm = z3.If(i < 0, i + n, i)
                return self.ite_chain([(norm == k, o[k]) for k in range(n)])
            try:
                return o[idx]
            except IndexError:
                raise PyRaise(IndexError)
            except TypeError:
                raise PyRaise(TypeError)
        raise Untranslatable(f"subscript of {type(o).__name__}")

    def ite_chain(self, pairs):
        """pairs: [(cond, value)], exactly one cond holds (established by the caller's branch)"""
        vals = [v for _, v in pairs]
        if all(isinstance(v, str) and len(v) == 1 for v in vals):
            acc = z3.IntVal(ord(vals[-1]))
            for c, v in reversed(pairs[:-1]):
                acc = z3.If(c, z3.IntVal(ord(v)), acc)
            return SStr((Cell(acc),))
        if all((isinstance(v, int) and not isinstance(v, bool)) or isinstance(v, z3.ArithRef) for v in vals):
            acc = to_z3_int(vals[-1])
            for c, v in reversed(pairs[:-1]):
                acc = z3.If(c, to_z3_int(v), acc)
            return acc
        if all(isinstance(v, str) for v in vals):
            # multi-character concrete strings: fork (small tables only)
            for c, v in pairs[:-1]:
                if self.branch(c):
                    return v
            return vals[-1]
        raise Untranslatable("table lookup with heterogeneous values")

    def e_GeneratorExp(self, e, env):
        return self._comp(e, env)

    def e_ListComp(self, e, env):
        return self._comp(e, env)

    def _comp(self, e, env):
        if len(e.generators) != 1:
            raise Untranslatable("nested comprehension")
        g = e.generators[0]
        out = []
        sub = dict(env)
        for item in self.iterate(self.eval(g.iter, env)):
            self.assign(g.target, item, sub)
            if all(self.truth(self.eval(c, sub)) for c in g.ifs):
                out.append(("__lazy__", e.elt, dict(sub)))
        return _LazySeq(self, out)

    def e_Call(self, e, env):
        fn = self.eval(e.func, env)
        args = []
        for a in e.args:
            if isinstance(a, ast.Starred):
                args.extend(self.iterate(self.eval(a.value, env)))
            else:
                args.append(self.eval(a, env))
        kwargs = {k.arg: self.eval(k.value, env) for k in e.keywords}
        return self.call(fn, args, kwargs)

    def call(self, fn, args, kwargs):
        if isinstance(fn, tuple) and len(fn) == 3 and fn[0] == "__method__":
            return self.call_method(fn[1], fn[2], args, kwargs)
        key = fn
        try:
            if key in self.stubs:
                return self.stubs[key](self, *args, **kwargs)
        except TypeError:
            pass
        if isinstance(fn, type) and issubclass(fn, BaseException):
            return PyRaise(fn, tuple(args))
        if fn is len:
            (v,) = args
            if isinstance(v, _LazySeq):
                v = v.force()
            if isinstance(v, SStr):
                if v.has_dec():
                    raise Untranslatable("len of decimal rendering")
                return len(v.cells())
            if is_sym(v):
                raise PyRaise(TypeError)
            try:
                return len(v)
            except TypeError:
                raise PyRaise(TypeError)
        if fn is isinstance:
            v, t = args
            pt = self.pytype(v)
            ts = t if isinstance(t, tuple) else (t,)
            return any(issubclass(pt, x) for x in ts)
        if fn is divmod:
            a, b = args
            if is_sym(a) or is_sym(b):
                return self.divmod(a, b)
            return divmod(a, b)
        if fn is int:
            (v,) = args
            if isinstance(v, SStr):
                if len(v.segs) == 1 and isinstance(v.segs[0], Dec) and not v.segs[0].fmt:
                    return v.segs[0].n
                if v.is_concrete():
                    try:
                        return int(v.concrete())
                    except ValueError:
                        raise PyRaise(ValueError)
                if not v.segs:
                    raise PyRaise(ValueError)
                raise Untranslatable(f"int() of {v}")
            if isinstance(v, str):
                try:
                    return int(v)
                except ValueError:
                    raise PyRaise(ValueError)
            if is_sym(v):
                return to_z3_int(v)
            return int(v)
        if fn is str:
            (v,) = args
            return self.format_value(v, "")
        if fn is bool:
            return self.truth(args[0])
        if fn in (any, all):
            (seq,) = args
            items = seq.lazy_items() if isinstance(seq, _LazySeq) else [lambda x=x: x for x in self.iterate(seq)]
            for th in items:
                t = self.truth(th())
                if fn is any and t:
                    return True
                if fn is all and not t:
                    return False
            return fn is all
        if fn in (min, max) and len(args) >= 2 and not kwargs:
            acc = args[0]
            for x in args[1:]:
                if is_sym(acc) or is_sym(x):
                    a, b = to_z3_int(acc), to_z3_int(x)
                    acc = z3.If(a <= b, a, b) if fn is min else z3.If(a >= b, a, b)
                else:
                    acc = fn(acc, x)
            return acc
        if fn in (list, tuple):
            if not args:
                return fn()
            v = args[0]
            if isinstance(v, _LazySeq):
                v = v.force()
            return fn(self.iterate(v))
        if fn is range and not any(is_sym(a) for a in args):
            return range(*args)
        if fn is enumerate:
            return list(enumerate(self.iterate(args[0]), *args[1:]))
        if fn is zip:
            return list(zip(*[self.iterate(a) for a in args]))
        if fn is type:
            return self.pytype(args[0])
        if fn is dict and not args and not kwargs:
            return {}
        if inspect.isfunction(fn) or inspect.ismethod(fn):
            mod = getattr(fn, "__module__", "") or ""
            if mod == self.package_prefix or mod.startswith(self.package_prefix + "."):
                return self.call_function(fn, args, kwargs)
        raise Untranslatable(f"call of {fn!r}")

    def call_method(self, o, name, args, kwargs):
        if isinstance(o, (str, SStr)):
            s = SStr.of(o)
            if name == "startswith" and len(args) == 1 and isinstance(args[0], str):
                p = args[0]
                if s.segs and isinstance(s.segs[0], str) and len(s.segs[0]) >= len(p):
                    return s.segs[0].startswith(p)
                if s.is_concrete():
                    return s.concrete().startswith(p)
                if not s.segs:
                    return p == ""
                # per-character comparison
                if s.has_dec():
                    fs = s.segs[0]
                    if isinstance(fs, Dec) and p and not (p[0].isdigit() or p[0] == "-"):
                        return False
                    raise Untranslatable("startswith on decimal rendering")
                cs = s.cells()
                if len(cs) < len(p):
                    return False
                return self.str_eq(SStr(cs[:len(p)]), SStr((p,)))
            if name == "encode" and not args:
                return ("__bytes__", s)
            if name == "format" and s.is_concrete() and not kwargs:
                import string as _string
                segs: List[Any] = []
                auto = 0
                for lit, field, spec, conv in _string.Formatter().parse(s.concrete()):
                    if lit:
                        segs.append(lit)
                    if field is None:
                        continue
                    if conv is not None:
                        raise Untranslatable("conversion in format field")
                    if field == "":
                        k = auto
                        auto += 1
                    elif field.isdigit():
                        k = int(field)
                    else:
                        raise Untranslatable("named/attribute format field")
                    if k >= len(args):
                        raise PyRaise(IndexError)
                    segs.extend(self.format_value(args[k], spec or "").segs)
                return SStr(segs)
            if name == "join":
                (seq,) = args
                if isinstance(seq, _LazySeq):
                    seq = seq.force()
                items = self.iterate(seq)
                segs: List[Any] = []
                for i, it in enumerate(items):
                    if i:
                        segs.extend(s.segs)
                    segs.extend(SStr.of(it).segs)
                return SStr(segs)
            if name in ("isdigit",) and s.is_concrete():
                return s.concrete().isdigit()
            if s.is_concrete() and not any(is_sym(a) or isinstance(a, SStr) for a in args):
                return getattr(s.concrete(), name)(*args, **kwargs)
            raise Untranslatable(f"str method {name}")
        if isinstance(o, list):
            if name == "append":
                o.append(args[0])
                return None
            if name == "extend":
                o.extend(self.iterate(args[0]))
                return None
        if isinstance(o, dict):
            if name == "keys":
                return list(o.keys())
            if name == "values":
                return list(o.values())
            if name == "items":
                return list(o.items())
            if name == "get":
                try:
                    return self.getitem(o, args[0])
                except PyRaise as e:
                    if e.cls is KeyError:
                        return args[1] if len(args) > 1 else None
                    raise
        raise Untranslatable(f"method {name} on {type(o).__name__}")


class _LazySeq:
    """generator expression: elements are evaluated on demand (so any()/all() short-circuit like Python)"""

    def __init__(self, eng: Engine, items):
        self.eng = eng
        self.items = items

    def lazy_items(self):
        return [lambda it=it: self.eng.eval(it[1], it[2]) for it in self.items]

    def force(self):
        return [th() for th in self.lazy_items()]


