"""C13 - a table's reported format string reproduces the table (XH).

Column descriptions (field, width bounds, modifier, break-by, hidden), record limits, record sets and the point in
the table's life are symbolic choices; the widths end up rendered into the format string, so the solver's role is
constraint-driven exhaustive enumeration of the bounded space (with an exhaustion certificate).
"""
from __future__ import annotations

from typing import List

from vf.core import Job
from vf.xh import Violation, concrete, realize, reject_unless

PROPERTY_ID = "C13"
FUNCTIONS = ["ak.ppobj.ReprColumn.to_fmt_str", "ak.ppobj._ColumnsParsedFmt._parse_col_fmt", "ak.ppobj._ColumnsParsedFmt._parse_cols_fmt",
             "ak.ppobj.PPTableFormat._get_fmt_str", "ak.ppobj.PPTableFormat._set_parsed_fmt", "ak.ppobj.PPTableFormat.set_limits",
             "ak.ppobj.PPTableFormat.make", "ak.ppobj._PPTableParsedFmt.__init__", "ak.ppobj._PPTableParsedFmt._parse_vis_lines_fmt",
             "ak.ppobj.ReprStructure._set_parsed_fmt", "ak.ppobj.ReprStructure.make", "ak.ppobj.ReprStructure._get_fmt_str",
             "ak.ppobj._PPTableImpl.set_fmt", "ak.ppobj._PPTableImpl.gen_ch_lines", "ak.ppobj.PPTable.set_fmt"]
BOUNDS = {
    "quick": {"columns": "1 column: every (field of 3, width spec from {default, fixed w, ranged a-b} with 0<=a<=b<=7, modifier of the enum field from {none,full,val,name}, break-by); "
                         "2-3 columns: each from 7 representative descriptors (incl. repeated field, hidden ':-1' field, zero width, ranged)",
              "limits": "none, '*', (a,b) with 0<=a,b<=2, half-open (a, None) / (None, b) as constructor argument (combined with width bounds <= 2 in the 1-column space)", "records": "0, 1, 3 and 5 rows (cells of different lengths, repeated values for break-by); 60 rows for the limit-related part",
              "life": "fresh, printed, printed + re-formatted with '' / ';' / ';;', printed + limits changed through the setter and read back before the next printing, format fed back twice"},
}
BOUNDS["thorough"] = dict(BOUNDS["quick"], columns=BOUNDS["quick"]["columns"].replace("<=7", "<=12").replace("7 representative", "10 representative"))
OUTSIDE = ["value-path ('<-') columns of the enhanced format", "custom FieldType classes", "multi-line titles", "more than 3 columns"]
STUBS = []
ASSUMPTIONS = ["structure is enumerated: the claim is exhaustive only inside the stated bounds"]

RECORD_SETS = {
    0: [],
    1: [(7, "bob", 10)],
    3: [(1, "al", 10), (22, "barbara-ann", 999), (333, "", 5)],
    5: [(1, "al", 10), (1, "al", 10), (22, "barbara", 999), (22, "cy", None), (4444, "dd", 10)],
}
FIELDS = ["id", "name", "st"]
MODS = [None, "full", "val", "name"]


def classify(record) -> str:
    return (record.get("message") or "").split("::")[0].strip()[:60] or "c13"


def _enum():
    from ak.ppobj import PPEnumFieldType
    return PPEnumFieldType({10: "Active", 999: ("Error status", "name_warn")})


def _col_fmt(field: int, wkind: int, a: int, b: int, mod: int, brk: bool) -> str:
    s = FIELDS[field]
    if mod:
        s += "/" + MODS[mod]
    if brk:
        s += "!"
    if wkind == 1:
        s += f":{a}"
    elif wkind == 2:
        s += f":{a}-{b}"
    elif wkind == 3:
        s += ":-1"
    return s


REPR = [  # representative column descriptors: (field, wkind, a, b, mod, brk)
    (0, 0, 0, 0, 0, False), (1, 2, 2, 6, 0, False), (2, 2, 3, 12, 1, True), (1, 1, 0, 0, 0, True), (2, 0, 0, 0, 3, False),
    (0, 3, 0, 0, 0, False), (2, 1, 4, 4, 2, False), (1, 2, 0, 1, 0, False), (0, 2, 1, 2, 0, True), (2, 2, 0, 20, 0, False),
]


def _render(t):
    a = t.ch_text(no_color=True).plain_text()
    b = str(t.ch_text())
    return a, b


def _mk(records, fmt):
    from ak.ppobj import PPTable
    return PPTable(records, fmt=fmt, fields=list(FIELDS), fields_types={"st": _enum()})


def _check_roundtrip(records, fmt0: str, stage: int, descr: str) -> None:
    try:
        t = _mk(records, fmt0)
    except ValueError as e:
        # the harness only builds valid formats; a rejection of the initial format is not C13's subject
        raise Violation(f"initial-format-rejected :: {descr}: {e}")
    if stage >= 1:
        _render(t)
    if stage >= 2:
        before = _render(t)
        fs = str(t.fmt)
        for empty in ("", ";", ";;"):
            t.fmt = empty
            if _render(t) != before:
                raise Violation(f"empty-fmt-changes :: {descr}: setting fmt={empty!r} changed the rendering")
            if str(t.fmt) != fs:
                raise Violation(f"empty-fmt-changes :: {descr}: setting fmt={empty!r} changed str(fmt) from {fs!r} to {str(t.fmt)!r}")
    if stage >= 3:
        # printed, then re-formatted with different record limits, and NOT printed again before the format is read back
        _render(t)
        t.fmt = ";2:1" if len(records) > 3 else ";1:0"
    s = str(t.fmt)          # reported before this stage's own rendering (stage 0: a table that was never printed)
    want = _render(t)
    # (a) accepted by the constructor, same rendering
    try:
        t2 = _mk(records, s)
    except Exception as e:  # noqa
        raise Violation(f"ctor-rejects :: {descr}: PPTable(fmt={s!r}) raises {type(e).__name__}: {e}")
    got2 = _render(t2)
    if got2 != want:
        raise Violation(f"ctor-differs :: {descr}: PPTable(fmt={s!r}) renders differently:\n{got2[0]}\n--- expected\n{want[0]}")
    # (b) accepted by the setter, same rendering
    try:
        t.fmt = s
    except Exception as e:  # noqa
        raise Violation(f"setter-rejects :: {descr}: t.fmt = {s!r} raises {type(e).__name__}: {e}")
    got = _render(t)
    if got != want:
        raise Violation(f"setter-differs :: {descr}: t.fmt = {s!r} renders differently:\n{got[0]}\n--- expected\n{want[0]}")
    # (c) idempotence: feeding back the reported format of the printed tables again changes nothing
    s2 = str(t.fmt)
    s3 = str(t2.fmt)
    if s2 != s3:
        raise Violation(f"fmt-str-differs :: {descr}: after printing, setter-made table reports {s2!r}, constructor-made {s3!r}")
    try:
        t.fmt = s2
        t3 = _mk(records, s2)
    except Exception as e:  # noqa
        raise Violation(f"second-feedback-rejects :: {descr}: {s2!r} raises {type(e).__name__}: {e}")
    if _render(t) != want or _render(t3) != want:
        raise Violation(f"second-feedback-differs :: {descr}: feeding back {s2!r} changes the rendering")


def _limits_fmt(lk: int, la: int, lb: int):
    return {0: "", 1: ";*", 2: f";{la}:{lb}"}[lk]


def h_one_column(field: int, wkind: int, a: int, b: int, mod: int, brk: bool, lk: int, la: int, lb: int, shard=None) -> None:
    W = shard["W"]
    reject_unless(0 <= field < 3 and 0 <= wkind <= 2 and 0 <= mod < 4 and 0 <= lk <= 2)
    reject_unless(0 <= a <= W and 0 <= b <= W)
    if wkind == 0:
        reject_unless(a == 0 and b == 0)
    elif wkind == 1:
        reject_unless(b == 0)
    else:
        reject_unless(a <= b)
    if field != 2:
        reject_unless(mod == 0)
    if lk != 2:
        reject_unless(la == 0 and lb == 0)
    else:
        reject_unless(0 <= la <= 2 and 0 <= lb <= 2)
    reject_unless(lk == shard["lk"])
    field, wkind, a, b, mod, brk, lk, la, lb = [realize(x) for x in (field, wkind, a, b, mod, brk, lk, la, lb)]
    fmt0 = _col_fmt(field, wkind, a, b, mod, brk) + _limits_fmt(lk, la, lb)
    records = RECORD_SETS[shard["nrec"]]
    with concrete():
        _check_roundtrip(records, fmt0, shard["stage"], f"fmt0={fmt0!r} records={shard['nrec']} stage={shard['stage']}")


def h_multi_column(c0: int, c1: int, c2: int, lk: int, la: int, lb: int, shard=None) -> None:
    n = shard["ncols"]
    R = shard["nrepr"]
    reject_unless(0 <= c0 < R and 0 <= c1 < R and 0 <= c2 < R and 0 <= lk <= 2)
    if n < 3:
        reject_unless(c2 == 0)
    if lk != 2:
        reject_unless(la == 0 and lb == 0)
    else:
        reject_unless(0 <= la <= 2 and 0 <= lb <= 2 and la + lb <= 3)
    c0, c1, c2, lk, la, lb = [realize(x) for x in (c0, c1, c2, lk, la, lb)]
    cols = [REPR[c] for c in (c0, c1, c2)[:n]]
    reject_unless(any(c[1] != 3 for c in cols))   # at least one visible column
    fmt0 = ",".join(_col_fmt(*c) for c in cols) + _limits_fmt(lk, la, lb)
    records = RECORD_SETS[shard["nrec"]]
    with concrete():
        _check_roundtrip(records, fmt0, shard["stage"], f"fmt0={fmt0!r} records={shard['nrec']} stage={shard['stage']}")


def h_many_records(lk: int, la: int, lb: int, via_arg: bool, shard=None) -> None:
    """record limits with a table long enough for the default limits (30:20) to matter"""
    from ak.ppobj import PPTable
    reject_unless(0 <= lk <= 4)
    if lk < 2:
        reject_unless(la == 0 and lb == 0)
    else:
        reject_unless(la in (0, 3, 40) and lb in (0, 2, 40))
    if lk == 3:
        reject_unless(lb == 0 and via_arg)        # (n_first, None): half-open limits exist only as constructor argument
    if lk == 4:
        reject_unless(la == 0 and via_arg)        # (None, n_last)
    lk, la, lb, via_arg = [realize(x) for x in (lk, la, lb, via_arg)]
    with concrete():
        _many_records(lk, la, lb, via_arg, shard)


def _many_records(lk, la, lb, via_arg, shard):
    from ak.ppobj import PPTable
    records = [(i, "n" + str(i % 7), 10 if i % 3 else 999) for i in range(shard["rows"])]
    fmt0 = "id,name!:2-5,st/name" + ("" if via_arg else _limits_fmt(min(lk, 2), la, lb))
    limits = None
    if via_arg:
        limits = {0: None, 1: (None, None), 2: (la, lb), 3: (la, None), 4: (None, lb)}[lk]
    for stage in (0, 1):
        t = PPTable(records, fmt=fmt0, fields=list(FIELDS), fields_types={"st": _enum()}, limits=limits)
        if stage:
            _render(t)
        s = str(t.fmt)
        want = _render(t)
        descr = f"rows={shard['rows']} fmt0={fmt0!r} limits={limits} stage={stage}"
        try:
            t2 = _mk(records, s)
            t.fmt = s
        except Exception as e:  # noqa
            raise Violation(f"rejects :: {descr}: {s!r} raises {type(e).__name__}: {e}")
        if _render(t) != want:
            raise Violation(f"setter-differs :: {descr}: t.fmt = {s!r} renders differently ({len(_render(t)[0].splitlines())} vs {len(want[0].splitlines())} lines)")
        if _render(t2) != want:
            raise Violation(f"ctor-differs-limits :: {descr}: PPTable(fmt={s!r}) renders {len(_render(t2)[0].splitlines())} lines instead of {len(want[0].splitlines())}")


def jobs(tier: str) -> List[Job]:
    t = tier == "thorough"
    js: List[Job] = []
    W = 12 if t else 7
    for stage in (0, 1, 2, 3):
        for nrec in ((0, 1, 3, 5) if t else (0, 3, 5)):
            if not t and stage in (2, 3) and nrec == 0:
                continue
            if not t and stage == 3 and nrec != 5:
                continue
            for lk in (0, 1, 2):
                if not t and lk == 1 and nrec != 5:
                    continue
                js.append(Job(__name__, "h_one_column", shard={"W": W if (t or lk != 2) else 2, "stage": stage, "nrec": nrec, "lk": lk}, budget_s=1200 if t else 110,
                              label=f"one_column:stage{stage}:rec{nrec}:lim{lk}", must_exhaust=True))
    for ncols in (2, 3):
        for stage in (0, 1, 2):
            for nrec in ((0, 3, 5) if t else (5,)):
                js.append(Job(__name__, "h_multi_column", shard={"ncols": ncols, "nrepr": 10 if t else (7 if ncols == 2 else 5), "stage": stage, "nrec": nrec},
                              budget_s=1500 if t else 110, label=f"multi_column:{ncols}cols:stage{stage}:rec{nrec}", must_exhaust=not t))
    for rows in ((40, 52, 60, 90) if t else (60,)):
        js.append(Job(__name__, "h_many_records", shard={"rows": rows}, budget_s=900 if t else 110, label=f"many_records:{rows}"))
    return js
