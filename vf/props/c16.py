"""C16 - request ids are unique per connection under concurrent use.

BCMC: the real bytecode of _HttpConnImpl._generate_request_id is compiled to per-thread step lists; z3 searches all
interleavings (pre-emption between any two instructions, reduced by commuting thread-local instructions) of T threads x C
calls from an arbitrary initial counter value for a schedule that hands out a repeated / skipped number or deadlocks.
P2S: the id text is a uniquely decodable function of the number (so distinct numbers give distinct ids).
XH: sequential contract through the real connection classes with a recording opener.
A sat schedule is replayed with real threads driven opcode by opcode through sys.settrace.
"""
from __future__ import annotations

import sys
import threading
import time
from typing import Any, Dict, List, Optional

import z3

from vf import bcmc, p2s
from vf.core import Job
from vf.xh import Violation, concrete, realize, reject_unless

PROPERTY_ID = "C16"
FUNCTIONS = ["ak.conn_http._HttpConnImpl._generate_request_id", "ak.conn_http._HttpConnImpl.do_request", "ak.conn_http._HttpConnImpl.__init__",
             "ak.conn_http._HttpConnBase.__init__"]
BOUNDS = {
    "quick": {"interleavings": "(threads, calls per thread) in {(2,1),(2,2),(3,1),(3,2),(4,1),(2,4)}: ALL interleavings at bytecode-instruction granularity, ALL initial counter values c0 >= 0",
              "ids": "ALL numbers n >= 0 (symbolic) for the id structure", "sequential": "<= 4 requests over a base connection and two derived ones, caller-supplied ids"},
    "thorough": {"interleavings": "additionally (3,3),(4,2),(5,1),(4,3),(2,8),(6,1)", "ids": "as quick", "sequential": "<= 5 requests"},
}
OUTSIDE = ["free-threaded (no-GIL) builds; exception edges of the with-block (an int increment cannot raise)", "header names differing from 'X-Request-ID' only by case",
           "more threads/calls than the stated configurations (each call starts from an arbitrary counter value, so longer histories are covered inductively as far as the counter is the only shared state)"]
STUBS = ["threading.Lock modelled as owner variable: acquire enabled iff free (validated: the live attribute is a _thread.lock)", "opener replaced by a recorder in the sequential part"]
ASSUMPTIONS = ["thread-local instructions commute with other threads' instructions (partial-order reduction); CPython switches threads only between bytecode instructions",
               "zero-padded decimal rendering of a non-negative int is injective and contains no '-' (used for unique decodability of the id)"]

CONFIGS_QUICK = [(2, 1), (2, 2), (3, 1), (3, 2), (4, 1), (2, 4)]
CONFIGS_THOROUGH = CONFIGS_QUICK + [(3, 3), (4, 2), (5, 1), (4, 3), (2, 8), (6, 1)]


def classify(record) -> str:
    return (record.get("message") or "").split("::")[0].strip()[:60] or "c16"


def _impl():
    from ak.conn_http import _HttpConnImpl
    return _HttpConnImpl, _HttpConnImpl("http://x.example")


def q_interleavings(shard=None) -> Dict[str, Any]:
    T, C = shard["threads"], shard["calls"]
    cls, impl = _impl()
    res: Dict[str, Any] = {"queries": 0, "unsat": 0, "sat": 0, "inconclusive": False, "samples": []}
    t0 = time.perf_counter()
    try:
        m = bcmc.Model(cls._generate_request_id, impl, T, C, timeout_ms=shard.get("timeout_ms", 600000))
        res["instructions_per_call"] = m.info["n_instructions"]
        res["visible_steps"] = m.K
        res["ops"] = m.info["ops"]
        r, _ = m.query_reachable()
        if r != "sat":
            res["error"] = f"vacuous: no complete schedule exists ({r})"
            return res
        ce = None
        r, mod = m.query_violation()
        if r == "sat":
            sched = m.visible_schedule(mod)
            c0 = mod.eval(m.c0, model_completion=True).as_long()
            nums = [mod.eval(x, model_completion=True).as_long() for x in m.numbers()]
            ce = {"message": f"duplicate-or-gap :: a schedule of {T} threads x {C} calls hands out numbers {nums} from counter {c0}",
                  "args": {"threads": T, "calls": C, "c0": c0, "schedule": sched, "numbers": nums},
                  "replay_hint": {"kind": "schedule", "threads": T, "calls": C, "c0": min(c0, 10**9), "schedule": sched}}
            res["sat"] += 1
        elif r == "unknown":
            res["inconclusive"] = True
        else:
            res["unsat"] += 1
        if ce is None:
            r, mod = m.query_deadlock()
            if r == "sat":
                L = mod.eval(z3.Int("L"), model_completion=True).as_long()
                sched = m.visible_schedule(mod, upto=L)
                ce = {"message": f"deadlock :: after a prefix of {L} visible steps no unfinished thread can move (lock never released)",
                      "args": {"threads": T, "calls": C, "schedule": sched}, "replay_hint": {"kind": "deadlock", "threads": T, "calls": C, "c0": 0, "schedule": sched}}
                res["sat"] += 1
            elif r == "unknown":
                res["inconclusive"] = True
            else:
                res["unsat"] += 1
        res["samples"].append({"threads": T, "calls": C, "visible_steps": m.K, "query": "exists schedule: numbers not distinct or != {c0..c0+n-1} or counter != c0+n; exists deadlocked prefix"})
        if ce:
            res["counterexample"] = ce
        res["queries"] = m.queries
        res["solver_time_s"] = round(m.solver_time, 3)
    except bcmc.Untranslatable as e:
        # the interleaving model is the core of this property: when the current bytecode cannot be modelled, nothing about
        # interleavings has been decided - reported as an error (exit 2), never as a pass
        res["inconclusive"] = True
        res["untranslatable"] = str(e)
        res["error"] = f"bytecode of _generate_request_id is outside the modelled subset ({e}): interleavings NOT decided"
    res["wall_s"] = round(time.perf_counter() - t0, 3)
    res["queries_nontrivial"] = res["unsat"] + res["sat"]
    res["bounds"] = {"threads": T, "calls_per_thread": C}
    return res


# ---------------------------------------------------------------------------------------------------
# replay with real threads
# ---------------------------------------------------------------------------------------------------
class _InstructionScheduler:
    """sys.monitoring INSTRUCTION events on the target code object: a thread may execute a *visible* instruction (lock
    acquire/release, counter read/write) only when the schedule says it is its turn; the previous visible instruction of
    a thread counts as completed when that thread reaches its next instruction (or returns)."""

    def __init__(self, code, visible_offsets, schedule: List[int], timeout=20.0):
        self.code = code
        self.visible = set(visible_offsets)
        self.schedule = schedule
        self.done = 0
        self.cv = threading.Condition()
        self.timeout = timeout
        self.failed: Optional[str] = None
        self.pending: Dict[int, bool] = {}
        self.tids: Dict[int, int] = {}
        self.tool = None

    def install(self):
        mon = sys.monitoring
        for tool in (mon.DEBUGGER_ID, 3, 4, 5):
            try:
                mon.use_tool_id(tool, "vf-c16-replay")
                self.tool = tool
                break
            except ValueError:
                continue
        if self.tool is None:
            raise RuntimeError("no free sys.monitoring tool id")
        E = mon.events
        mon.register_callback(self.tool, E.INSTRUCTION, self._on_instruction)
        mon.register_callback(self.tool, E.PY_RETURN, self._on_return)
        mon.set_local_events(self.tool, self.code, E.INSTRUCTION | E.PY_RETURN)

    def uninstall(self):
        mon = sys.monitoring
        if self.tool is not None:
            mon.set_local_events(self.tool, self.code, 0)
            mon.register_callback(self.tool, mon.events.INSTRUCTION, None)
            mon.register_callback(self.tool, mon.events.PY_RETURN, None)
            mon.free_tool_id(self.tool)
            self.tool = None

    def _tid(self):
        return self.tids.get(threading.get_ident())

    def _complete_prev(self, tid):
        if self.pending.get(tid):
            self.pending[tid] = False
            self.done += 1
            self.cv.notify_all()

    def _on_instruction(self, code, offset):
        tid = self._tid()
        if tid is None:
            return
        with self.cv:
            self._complete_prev(tid)
            if offset not in self.visible:
                return
            end = time.time() + self.timeout
            while self.failed is None:
                if self.done >= len(self.schedule):
                    return            # beyond the scheduled prefix: run freely
                if self.schedule[self.done] == tid:
                    break
                left = end - time.time()
                if left <= 0:
                    self.failed = f"thread {tid} waited too long at visible step {self.done}"
                    self.cv.notify_all()
                    return
                self.cv.wait(left)
            self.pending[tid] = True

    def _on_return(self, code, offset, retval):
        tid = self._tid()
        if tid is None:
            return
        with self.cv:
            self._complete_prev(tid)


def run_schedule(threads: int, calls: int, c0: int, vis_schedule: List[int], expect_deadlock=False) -> Optional[str]:
    """-> description of the observed violation, or None"""
    cls, impl = _impl()
    model = bcmc.Model(cls._generate_request_id, impl, threads, calls)
    impl._cur_req_id = c0
    code = cls._generate_request_id.__code__
    sch = _InstructionScheduler(code, model.visible_offsets(), vis_schedule, timeout=3.0 if expect_deadlock else 20.0)
    results: Dict[int, List[Any]] = {t: [] for t in range(threads)}
    start = threading.Barrier(threads)

    def body(t):
        sch.tids[threading.get_ident()] = t
        start.wait()
        for _ in range(calls):
            results[t].append(impl._generate_request_id())
    sch.install()
    try:
        ths = [threading.Thread(target=body, args=(t,), daemon=True) for t in range(threads)]
        for th in ths:
            th.start()
        for th in ths:
            th.join(8.0 if expect_deadlock else 60.0)
        alive = [th.is_alive() for th in ths]
    finally:
        sch.uninstall()
    if expect_deadlock:
        return f"threads {[i for i, a in enumerate(alive) if a]} are blocked forever on the request-id lock" if any(alive) else None
    if any(alive) or sch.failed:
        return f"replay could not follow the schedule: {sch.failed or 'threads did not finish'}"
    ids = [x for t in range(threads) for x in results[t]]
    n = len(ids)
    if len(set(ids)) != n:
        return f"duplicate X-Request-ID values handed out: {sorted(ids)}"
    nums = sorted(int(x.rsplit("-", 1)[1]) for x in ids)
    if nums != list(range(c0, c0 + n)) or impl._cur_req_id != c0 + n:
        return f"numbers {nums} handed out from counter {c0} (counter now {impl._cur_req_id})"
    return None


def replay_q_interleavings(record) -> Optional[str]:
    h = record["replay_hint"]
    r = run_schedule(h["threads"], h["calls"], h["c0"], h["schedule"], expect_deadlock=(h["kind"] == "deadlock"))
    if r and r.startswith("replay could not"):
        return None
    return r


# ---------------------------------------------------------------------------------------------------
# id structure (P2S)
# ---------------------------------------------------------------------------------------------------
def q_id_structure(shard=None) -> Dict[str, Any]:
    cls, impl = _impl()
    res: Dict[str, Any] = {"queries": 0, "unsat": 0, "sat": 0, "inconclusive": False, "samples": []}
    eng = p2s.Engine(timeout_ms=30000)
    t0 = time.perf_counter()
    try:
        n = z3.Int("n")
        part = p2s.SStr(tuple(p2s.Cell(z3.Int(f"p{i}")) for i in range(4)))
        obj = p2s.SObj("impl", _reqid_generator_guard=impl._reqid_generator_guard, _cur_req_id=n, _reqid_connection_part=part)
        outs = eng.explore(cls._generate_request_id, (obj,), assumptions=[n >= 0])
        ce = None
        for o in outs:
            if o.kind != "return" or not isinstance(o.value, p2s.SStr):
                if eng.check(o.pc) == "sat":
                    v = eng.last_model.eval(n, model_completion=True).as_long()
                    ce = {"message": "id-not-a-string :: _generate_request_id does not return an id string", "args": {"n": v}, "replay_hint": {"kind": "ids", "ns": [v, v + 1]}}
                continue
            segs = o.value.segs
            last = segs[-1] if segs else None
            prev = segs[-2] if len(segs) > 1 else None
            # unique decodability: the id ends with the zero-padded decimal of exactly the number taken from the counter,
            # preceded by a literal ending in a non-digit; then n = int(id.rsplit(sep, 1)[1]) is a left inverse
            ok_shape = isinstance(last, p2s.Dec) and isinstance(prev, str) and not prev[-1].isdigit() and (last.fmt == "" or (last.fmt.isdigit()))
            if not ok_shape:
                ce = {"message": f"id-shape :: the id {o.value} does not end in the decimal rendering of the number",
                      "args": {"rope": repr(o.value)}, "replay_hint": {"kind": "ids", "ns": [0, 1, 10, 10000, 10001, 20000, 10**12, 10**12 + 10000]}}
                continue
            r = eng.check(o.pc + [last.n != n])
            if r == "sat":
                v = eng.last_model.eval(n, model_completion=True).as_long()
                ce = {"message": "id-number :: the number rendered in the id is not the number taken from the counter", "args": {"n": v},
                      "replay_hint": {"kind": "ids", "ns": [v, v + 1, v + 10000]}}
            elif r == "unknown":
                res["inconclusive"] = True
            else:
                res["unsat"] += 1
            # the counter advances by exactly one
            r = eng.check(o.pc + [obj.attrs["_cur_req_id"] != n + 1])
            if r == "sat":
                v = eng.last_model.eval(n, model_completion=True).as_long()
                ce = {"message": "counter-step :: a call does not advance the counter by exactly one", "args": {"n": v}, "replay_hint": {"kind": "ids", "ns": [v, v + 1]}}
            elif r == "unknown":
                res["inconclusive"] = True
            else:
                res["unsat"] += 1
            obj.attrs["_cur_req_id"] = n
        res["samples"].append({"query": "for all n >= 0: id(n) = <literal ending in non-digit> + zero-padded decimal of n; counter' = n + 1", "paths": len(outs)})
        if not outs:
            res["error"] = "vacuous: no path"
        if ce:
            res["counterexample"] = ce
            res["sat"] += 1
    except (p2s.Untranslatable, p2s.PathLimit) as e:
        res["inconclusive"] = True
        res["untranslatable"] = str(e)
    res["queries"] = eng.queries
    res["solver_time_s"] = round(eng.solver_time, 3)
    res["functions_translated"] = eng.functions_seen
    res["wall_s"] = round(time.perf_counter() - t0, 3)
    res["queries_nontrivial"] = res["unsat"] + res["sat"]
    return res


def replay_q_id_structure(record) -> Optional[str]:
    cls, impl = _impl()
    ns = record["replay_hint"]["ns"]
    seen = {}
    for v in ns:
        impl._cur_req_id = v
        rid = impl._generate_request_id()
        if not isinstance(rid, str):
            return f"id for {v} is {rid!r}"
        if impl._cur_req_id != v + 1:
            return f"counter went from {v} to {impl._cur_req_id}"
        if rid in seen and seen[rid] != v:
            return f"numbers {seen[rid]} and {v} get the same id {rid!r}"
        seen[rid] = v
    return None


# ---------------------------------------------------------------------------------------------------
# sequential contract (XH)
# ---------------------------------------------------------------------------------------------------
def _run_sequence(ops, c0, send_ids) -> None:
    from ak import conn_http as H
    from vf.props.c17 import Recorder
    if send_ids:
        base = H.HttpConn("http://h.example")
    else:
        base = H.HttpConn(["http://h.example", False])
    rec = Recorder()
    base.conn_impl.opener = rec
    if send_ids:
        base.conn_impl._cur_req_id = c0
    conns = [base, H.HttpConn(base), H.BAuthConn(base, "u", "p")]
    conns.append(H.HttpConn(conns[2], adapters=H.RequestAdapterAddPathPrefix("/x")))
    expected_next = c0
    seen = set()
    n_by_kind = {True: 0, False: 0}
    for (ci, own) in ops:
        # a caller-supplied id is whatever the caller put there: also an empty string or "0" (values a truthiness test drops)
        own_id = [f"own-{len(rec.requests)}", "", "0"][(len(rec.requests) + ci) % 3]
        headers = {"X-Request-ID": own_id} if own else None
        snap = dict(headers) if headers else None
        # every verb has its own entry point on the connection objects: rotate through them (patch first)
        verb = (["patch", "get", "post", "delete", "put"] if own else ["get", "patch", "post", "delete", "put"])[n_by_kind[bool(own)] % 5]
        n_by_kind[bool(own)] += 1
        getattr(conns[ci], verb)("/p", headers=headers)
        if headers != snap:
            raise Violation("caller-headers-modified :: the caller's headers dict was modified")
        req = rec.requests[-1]
        items = {k.lower(): v for k, v in req.header_items()}
        rid = items.get("x-request-id")
        what = f"ops={ops} c0={c0} send_ids={send_ids}"
        if own:
            if rid != snap["X-Request-ID"]:
                raise Violation(f"own-id-changed :: {what}: caller-supplied id {snap['X-Request-ID']!r} was sent as {rid!r}")
        elif not send_ids:
            if rid is not None:
                raise Violation(f"id-sent-when-disabled :: {what}: an id {rid!r} was sent although ids are disabled")
        else:
            if rid is None:
                raise Violation(f"id-missing :: {what}: no X-Request-ID was sent")
            num = int(rid.rsplit("-", 1)[1])
            if num != expected_next:
                raise Violation(f"sequence :: {what}: request carries number {num}, expected {expected_next} (no gaps, no repeats, caller-supplied ids consume none)")
            if rid in seen:
                raise Violation(f"duplicate :: {what}: id {rid!r} sent twice")
            seen.add(rid)
            expected_next += 1
    if send_ids and base.conn_impl._cur_req_id != expected_next:
        raise Violation("counter :: counter does not equal the number of generated ids")


def h_sequential(n: int, c0: int, send_ids: bool, k0: int, k1: int, k2: int, k3: int, k4: int, o0: bool, o1: bool, o2: bool, o3: bool, o4: bool, shard=None) -> None:
    reject_unless(n == shard["n"] and c0 == shard["c0"] and send_ids == shard["send_ids"])
    ks, os_ = [k0, k1, k2, k3, k4], [o0, o1, o2, o3, o4]
    for i in range(5):
        if i < n:
            reject_unless(0 <= ks[i] < 4)
        else:
            reject_unless(ks[i] == 0 and not os_[i])
    if not send_ids:
        reject_unless(c0 == 0)
    vals = [realize(x) for x in [c0, send_ids] + ks + os_]
    c0, send_ids = vals[0], vals[1]
    ops = list(zip(vals[2:7], vals[7:12]))[:n]
    with concrete():
        _run_sequence(ops, c0, send_ids)


def jobs(tier: str) -> List[Job]:
    t = tier == "thorough"
    js: List[Job] = []
    for (T, C) in (CONFIGS_THOROUGH if t else CONFIGS_QUICK):
        js.append(Job(__name__, "q_interleavings", kind="solver", shard={"threads": T, "calls": C}, label=f"bcmc:{T}threads x {C}calls"))
    js.append(Job(__name__, "q_id_structure", kind="solver", label="p2s:id-structure"))
    for n in ((1, 2, 3, 4, 5) if t else (1, 2, 3)):
        for c0, send in ((0, True), (9998, True), (10**12 - 1, True), (0, False)):
            if not t and n == 3 and c0 == 10**12 - 1:
                continue
            js.append(Job(__name__, "h_sequential", shard={"n": n, "c0": c0, "send_ids": send}, budget_s=1200 if t else 100,
                          label=f"xh:sequential:n{n}:c0={c0}:{'ids' if send else 'noids'}", must_exhaust=(n < 4)))
    return js
