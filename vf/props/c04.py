"""C04 - source positions are exact and cover the text (XH with a stubbed regex matcher + concrete replay on the real regex).

The regex engine is the environment: the tokenizer's compiled matchers are replaced by stubs whose match(line, col)
returns None or a match ending at an arbitrary (symbolic) offset with an arbitrary token kind.  Lines are symbolic
strings (symbolic lengths), so line lengths, token boundaries, blank lines, leading/trailing skipped text and the line on
which a span token closes are all solver variables; the real _Tokenizer.tokenize, TElement, LLParser.parse and
TElement.get_orig_text run unchanged.  Counterexamples are replayed through the real `re` tokenizer on a synthesised text.
"""
from __future__ import annotations

from typing import Any, List, Optional

from vf.core import Job
from vf.xh import Violation, realize, reject_unless

PROPERTY_ID = "C04"
FUNCTIONS = ["ak.llparser._Tokenizer.tokenize", "ak.llparser.TElement.__init__", "ak.llparser.TElement.get_orig_text", "ak.llparser.LLParser.parse",
             "ak.llparser.LexicalError.__init__", "ak.llparser.SrcPos.__init__"]
BOUNDS = {
    "quick": {"text": "1-3 lines given as a list of lines, each line a symbolic string of symbolic length <= 6; <= 4 matcher calls in total", "matches": "every call: no match / WORD / skipped SPACE / span opener; "
              "match end = any offset in (col, len(line)]; span closes on the same or a later line or never", "str input": "concrete replay only"},
}
BOUNDS["thorough"] = dict(BOUNDS["quick"], text=BOUNDS["quick"]["text"].replace("<= 3 matcher calls", "<= 5 matcher calls").replace("length <= 4", "length <= 8"))
OUTSIDE = ["regexes that match the empty string", "more than 3 lines / 5 tokens", "lines containing characters that str.rstrip removes when the text is given as one str (str front end is exercised concretely)"]
STUBS = ["parser.tokenizer.matcher / span_matchers[...] replaced by stub matchers: match(line, col) -> None | match with end() in (col, len(line)], lastgroup in {WORD, SPACE, STR}, group() = line[col:end]"]
ASSUMPTIONS = ["the regex engine only ever returns matches starting at the requested column (re.match contract)"]

TOKENIZER = r"""
    (?P<SPACE>\s+)
    |(?P<WORD>[a-z]+)
    |(?P<STR><<)
    |(?P<PLUS>\+)
    |(?P<BANG>!)
"""
SPAN = {"STR": r"(?P<END_STR>([^>]|>[^>])*)>>"}
# MODS is a nullable symbol built only of nullable symbols: an empty MODS is a node with children that all matched nothing
PRODS = {"E": [("ITEM", "E"), None], "ITEM": [("WORD", "MODS"), ("STR",)], "MODS": [("OA", "OB")], "OA": [("PLUS",), None], "OB": [("BANG",), None]}
LEAVES = ("WORD", "STR", "PLUS", "BANG")


def classify(record) -> str:
    return (record.get("message") or "").split("::")[0].strip()[:60] or "c04"


class _FakeMatch:
    def __init__(self, line, col, end, group_name, group_text):
        self._end = end
        self.lastgroup = group_name
        self._text = group_text

    def end(self):
        return self._end

    def group(self, name=None):
        return self._text


class _Env:
    """decision source shared by both stub matchers + log of what the 'regex engine' answered"""

    def __init__(self, kinds, lens, max_calls):
        self.kinds = kinds
        self.lens = lens
        self.k = 0
        self.max_calls = max_calls
        self.log: List[Any] = []     # (what, line, col, end|None)

    def next(self):
        reject_unless(self.k < self.max_calls)
        k = self.k
        self.k += 1
        reject_unless(0 <= self.kinds[k] <= 5)       # decisions are only examined when the tokenizer asks for them
        return self.kinds[k], self.lens[k]


class _StubMatcher:
    groupindex = {"SPACE": 1, "WORD": 2, "STR": 3, "PLUS": 4, "BANG": 5}

    def __init__(self, env):
        self.env = env

    def match(self, line, col):
        kind, ln = self.env.next()
        if kind == 3:
            self.env.log.append(("none", line, col, None))
            return None
        end = col + ln
        reject_unless(ln >= (2 if kind == 2 else 1) and end <= len(line))
        if kind >= 4:
            reject_unless(ln == 1)
        name = ["WORD", "SPACE", "STR", None, "PLUS", "BANG"][kind]
        self.env.log.append((name, line, col, end))
        return _FakeMatch(line, col, end, name, line[col:end])


class _StubSpanMatcher:
    def __init__(self, env):
        self.env = env

    def match(self, line, col):
        kind, ln = self.env.next()
        if kind != 0:       # not closed on this line
            self.env.log.append(("span-open", line, col, None))
            return None
        end = col + ln
        reject_unless(ln >= 2 and end <= len(line))
        self.env.log.append(("span-close", line, col, end))
        return _FakeMatch(line, col, end, "END_STR", line[col:end - 2])


def _mk_parser():
    import ak.llparser as L
    return L.LLParser(TOKENIZER, span_matchers=dict(SPAN), productions={k: list(v) for k, v in PRODS.items()})


def _expected_tokens(log, lines):
    """from the environment's answers: -> (tokens [(name, (l0,c0), (l1,c1), text)], lexical error line or None)"""
    toks = []
    err_line = None
    open_at = None
    line_index = {}
    for idx, l in enumerate(lines):
        line_index[id(l)] = idx
    for what, line, col, end in log:
        li = None
        for idx, l in enumerate(lines):
            if l is line:
                li = idx
        if li is None:
            raise RuntimeError("harness: line object not found")
        if what == "none":
            err_line = li + 1
            break
        if what in ("WORD", "SPACE", "PLUS", "BANG"):
            if what != "SPACE":
                toks.append((what, (li, col), (li, end)))
        elif what == "STR":
            open_at = (li, col)
        elif what == "span-close":
            toks.append(("STR", open_at, (li, end)))
            open_at = None
    if open_at is not None and err_line is None:
        err_line = -1        # span never closed: lexical error (line not specified by the statement)
    return toks, err_line


def _text_between(lines, a, b):
    (l0, c0), (l1, c1) = a, b
    if l0 == l1:
        return lines[l0][c0:c1]
    parts = [lines[l0][c0:]]
    for i in range(l0 + 1, l1):
        parts.append(lines[i])
    parts.append(lines[l1][:c1])
    return "\n".join(parts)


def check_tree(root, toks, lines, end_pos_expected=None, src=None) -> None:
    """assertions of the property over the tree `root` for expected tokens `toks` (0-based (line, col) pairs)"""
    leaves = []
    inner = []

    def walk(n):
        if n.is_leaf() and n.name in LEAVES:
            leaves.append(n)
            return
        if n.value is None:
            inner.append((n, None, len(leaves)))
            return
        i0 = len(leaves)
        for c in n.value:
            walk(c)
        inner.append((n, i0, len(leaves) - 1))
    walk(root)
    if len(leaves) != len(toks):
        raise Violation(f"leaves :: {len(leaves)} leaves for {len(toks)} tokens")
    prev_end = (1, 1)
    for leaf, (name, a, b) in zip(leaves, toks):
        want = ((a[0] + 1, a[1] + 1), (b[0] + 1, b[1] + 1))
        if leaf.name != name:
            raise Violation(f"leaf-name :: leaf {leaf.name} for token {name}")
        if leaf.span != want:
            raise Violation(f"leaf-span :: token {name} matched at line {a[0] + 1} columns {a[1] + 1}..{b[1] + 1} (end line {b[0] + 1}) carries span {leaf.span}, expected {want}")
        if leaf.span[0] < prev_end:
            raise Violation(f"backwards :: span {leaf.span} starts before the previous token's end {prev_end}")
        prev_end = leaf.span[1]
        exp = _text_between(lines, a, b)
        for text_form in ((lines,) if src is None or isinstance(src, list) else (lines, src)):
            try:
                got = leaf.get_orig_text(text_form)
            except AssertionError as e:
                raise Violation(f"orig-text :: get_orig_text({type(text_form).__name__}) of {name} at {want} raises AssertionError: {e}")
            if got != exp:
                raise Violation(f"orig-text :: get_orig_text({type(text_form).__name__}) of {name} at {want} returns {got!r}, the matched characters are {exp!r}")
    # following-token position for empty nodes: the start of the next leaf, or the end of input position
    for node, i0, i1 in inner:
        if i0 is None or i1 < i0:
            if node.span[0] != node.span[1]:
                raise Violation(f"empty-node-span :: node {node.name} matched nothing but has span {node.span}")
            nxt = i1 if i0 is None else i0          # index of the leaf that follows the empty node
            if nxt < len(leaves) and node.span[0] != leaves[nxt].span[0]:
                raise Violation(f"empty-node-position :: node {node.name} matched nothing; its empty span is at {node.span[0]}, the following token starts at {leaves[nxt].span[0]}")
            continue
        want = (leaves[i0].span[0], leaves[i1].span[1])
        if node.span != want:
            raise Violation(f"inner-span :: node {node.name} has span {node.span}, its tokens run {want}")
        a = toks[i0][1]
        b = toks[i1][2]
        for text_form in ((lines,) if src is None or isinstance(src, list) else (lines, src)):
            try:
                got = node.get_orig_text(text_form)
            except AssertionError as e:
                raise Violation(f"inner-orig-text :: get_orig_text({type(text_form).__name__}) of node {node.name} {node.span} raises AssertionError: {e}")
            if got != _text_between(lines, a, b):
                raise Violation(f"inner-orig-text :: get_orig_text({type(text_form).__name__}) of node {node.name} {node.span} returns {got!r}")


def h_positions(n_lines: int, line0: str, line1: str, line2: str, k0: int, k1: int, k2: int, k3: int, k4: int,
                e0: int, e1: int, e2: int, e3: int, e4: int, shard=None) -> None:
    import ak.llparser as L
    maxlen = shard["maxlen"]
    reject_unless(n_lines == shard["n_lines"])
    lines_all = [line0, line1, line2]
    for i, l in enumerate(lines_all):
        if i < n_lines:
            reject_unless(len(l) <= maxlen)
        else:
            reject_unless(len(l) == 0)
    lines = lines_all[:n_lines]
    kinds = [k0, k1, k2, k3, k4]
    lens = [e0, e1, e2, e3, e4]
    env = _Env(kinds, lens, shard["max_calls"])
    parser = _mk_parser()
    parser.tokenizer.matcher = _StubMatcher(env)
    parser.tokenizer.span_matchers = {"STR": _StubSpanMatcher(env)}
    outcome = None
    try:
        root = parser.parse(lines, do_cleanup=False)
        outcome = "tree"
    except L.LexicalError as e:
        outcome = "lexical"
        lex = e
    except L.ParsingError:
        from vf.xh import Reject
        raise Reject()          # token sequence is not a sentence of the little grammar: positions of a tree cannot be checked
    toks, err_line = _expected_tokens(env.log, lines)
    if err_line is not None:
        if outcome != "lexical":
            raise Violation("no-lexical-error :: a character no token pattern matches (or an unclosed span) did not raise LexicalError")
        if err_line > 0 and lex.src_pos.line != err_line:
            raise Violation(f"lexical-line :: LexicalError names line {lex.src_pos.line}, the unmatched character is on line {err_line}")
        return
    if outcome != "tree":
        raise Violation(f"unexpected-lexical-error :: LexicalError although every position was matched: {lex}")
    check_tree(root, toks, lines)


# ---------------------------------------------------------------------------------------------------
# replay / concrete front end: real regex tokenizer on a synthesised text
# ---------------------------------------------------------------------------------------------------
def _synthesise(record_args, shard):
    """turn the stub's answers into a real text: letters for WORD, blanks for SPACE, << ... >> for the span token"""
    a = record_args
    n = a["n_lines"]
    lens = [len(a["line0"]), len(a["line1"]), len(a["line2"])][:n]
    kinds = [a[f"k{i}"] for i in range(5)]
    es = [a[f"e{i}"] for i in range(5)]
    lines = [[" "] * L for L in lens]
    k = 0
    li, col = 0, 0
    in_span = False
    bad = False
    while li < n and k < shard["max_calls"]:
        if col >= lens[li]:
            li += 1
            col = 0
            continue
        kind, ln = kinds[k], es[k]
        k += 1
        if in_span:
            if kind != 0:
                for c in range(col, lens[li]):
                    lines[li][c] = "."
                col = lens[li]
            else:
                end = col + ln
                for c in range(col, end - 2):
                    lines[li][c] = "."
                lines[li][end - 2] = ">"
                lines[li][end - 1] = ">"
                col = end
                in_span = False
            continue
        if kind == 3:
            lines[li][col] = "#"
            bad = True
            break
        end = col + ln
        if kind == 0:
            for c in range(col, end):
                lines[li][c] = "abcdefghij"[k % 10]
            # adjacent WORD matches would merge in a real regex: separate them by making the boundary visible
        elif kind == 1:
            for c in range(col, end):
                lines[li][c] = " "
        elif kind in (4, 5):
            lines[li][col] = "+" if kind == 4 else "!"
        else:
            lines[li][col] = "<"
            lines[li][col + 1] = "<"
            for c in range(col + 2, end):
                lines[li][c] = "<" if False else "."
            in_span = True
            # opener is exactly 2 characters in the real regex: the rest of the stub's match is span body
        col = end
    return ["".join(l) for l in lines]


def concrete_positions_check(text_lines: List[str]) -> Optional[str]:
    """the property's assertions on the REAL tokenizer for a concrete text (list of lines and the same text as one str)"""
    import re
    import ak.llparser as L
    parser = _mk_parser()
    # independent tokenisation with the documented patterns
    toks = []
    err_line = None
    open_at = None
    for li, line in enumerate(text_lines):
        col = 0
        while col < len(line):
            if open_at is not None:
                j = line.find(">>", col)
                if j < 0:
                    col = len(line)
                else:
                    toks.append(("STR", open_at, (li, j + 2)))
                    open_at = None
                    col = j + 2
                continue
            m = re.compile(r"(?P<SPACE>\s+)|(?P<WORD>[a-z]+)|(?P<STR><<)|(?P<PLUS>\+)|(?P<BANG>!)").match(line, col)
            if m is None:
                err_line = li + 1
                break
            if m.lastgroup in ("WORD", "PLUS", "BANG"):
                toks.append((m.lastgroup, (li, col), (li, m.end())))
            elif m.lastgroup == "STR":
                open_at = (li, col)
            col = m.end()
        if err_line:
            break
    if open_at is not None and err_line is None:
        err_line = -1
    for form, src in (("list", list(text_lines)), ("str", "\n".join(text_lines))):
        # (str input: the tokenizer ignores white space at the end of each line, positions refer to the text as given, and
        #  get_orig_text returns the characters of the given text - trailing white space inside a multi-line span included)
        try:
            root = parser.parse(src, do_cleanup=False)
        except L.LexicalError as e:
            if err_line is None:
                return f"LexicalError on fully matchable text ({form} input): {e}"
            if err_line > 0 and e.src_pos.line != err_line:
                return f"LexicalError names line {e.src_pos.line}, expected {err_line} ({form} input)"
            continue
        except L.ParsingError as e:
            continue        # not a sentence of the little grammar (e.g. '+' without a word): nothing to check
        if err_line is not None:
            return f"no LexicalError ({form} input) though line {err_line} has an unmatched character"
        try:
            check_tree(root, toks, text_lines, src=src)
        except Violation as v:
            return f"{v} ({form} input; text {text_lines!r})"
    return None


def replay_h_positions(record):
    from vf.core import decode_args
    a = decode_args(record["args"])
    shard = record["fixed"]["shard"]
    lines = _synthesise(a, shard)
    return concrete_positions_check(lines)


def h_concrete_texts(c0: int, c1: int, shard=None) -> None:
    """real regex tokenizer on every text over a 6-symbol alphabet up to the length bound (str and list-of-lines input):
    the first two symbols are choice variables, the remaining ones are swept natively inside the path"""
    import itertools
    from vf.xh import concrete
    alphabet = ["a", " ", "\n", "+", "!", "<<", ">>", "#"]
    if shard.get("exotic"):
        # white space that str.splitlines() treats as a line break but the tokenizer (split on '\n') does not
        alphabet = ["a", " ", "\n", "\t", "\f", "\r", "\u2028", "\x0b", "\x85", "+", "#"]
    n = shard["n"]
    k = len(alphabet) if shard.get("with_bad") else len(alphabet) - 1
    reject_unless(0 <= c0 < k and 0 <= c1 < k)
    if n < 2:
        reject_unless(c1 == 0)
    if n < 1:
        reject_unless(c0 == 0)
    c0, c1 = realize(c0), realize(c1)
    with concrete():
        from vf.xh import sweep_should_stop
        for rest in itertools.product(range(k), repeat=max(0, n - 2)):
            if sweep_should_stop():
                return
            cs = ([c0, c1] + list(rest))[:n]
            text = "".join(alphabet[c] for c in cs)
            err = concrete_positions_check(text.split("\n"))
            if err:
                raise Violation(f"real-tokenizer :: {err}")


def jobs(tier: str) -> List[Job]:
    t = tier == "thorough"
    js = []
    for n_lines in (1, 2, 3):
        js.append(Job(__name__, "h_positions", shard={"n_lines": n_lines, "maxlen": 8 if t else 4, "max_calls": 5 if t else 3}, budget_s=1500 if t else 110,
                      per_path_timeout=30, label=f"stub-matcher:{n_lines}lines"))
    for n in range(0, 8 if t else 7):
        js.append(Job(__name__, "h_concrete_texts", shard={"n": n, "with_bad": n <= 4}, budget_s=1500 if t else 100, label=f"real-regex:texts-of-{n}-symbols", must_exhaust=True))
    for n in ((2, 3, 4, 5) if t else (2, 3, 4)):
        js.append(Job(__name__, "h_concrete_texts", shard={"n": n, "with_bad": n <= 3, "exotic": True}, budget_s=1500 if t else 100, label=f"real-regex:exotic-whitespace-{n}-symbols", must_exhaust=True))
    return js
