"""C05 - list, map and sequence templates return exactly the denoted items (XH-driven exhaustive enumeration).

Template options are concrete per shard; the first item, the trailing-delimiter flag and the separator style are z3
choice variables; the remaining items of the rendered data structure are swept natively inside each path.
Purely structural property: exhaustive bounded enumeration with an exhaustion certificate.
"""
from __future__ import annotations

import itertools
from typing import Any, List, Optional

from vf.core import Job
from vf.xh import Violation, concrete, realize, reject_unless

PROPERTY_ID = "C05"
FUNCTIONS = ["ak.llparser.ListProds.complete_init", "ak.llparser.ListProds.gen_productions", "ak.llparser.ListProds.transform_t_elem", "ak.llparser.ListProds._parse_tail_t_elem",
             "ak.llparser.MapProds.complete_init", "ak.llparser.MapProds.gen_productions", "ak.llparser.MapProds.transform_t_elem", "ak.llparser.MapProds._parse_kv_tail",
             "ak.llparser.MapProds._parse_kv_pair", "ak.llparser.ProdSequence.complete_init", "ak.llparser.ProdSequence.gen_productions", "ak.llparser.LLParser._process_seq_telement",
             "ak.llparser.StdCleanuper._cleanup", "ak.llparser.StdCleanuper._make_squash_data", "ak.llparser.LLParser.parse"]
BOUNDS = {
    "quick": {"templates": "8 legal ListProds option combinations (brackets / delimiter / allow_final_delimiter / optional), 4 bracketed + 2 bracket-less MapProds combinations, ProdSequence",
              "data": "outer container of <= 3 items from a pool of 10 values (words, empty / nested lists and maps up to depth 3, repeated map keys); trailing delimiter yes/no; absent container",
              "separators": "blank, newline, comment, minimal"},
}
BOUNDS["thorough"] = dict(BOUNDS["quick"], data=BOUNDS["quick"]["data"].replace("<= 3 items", "<= 4 items"))
OUTSIDE = ["omitted items of a nullable item symbol (',,' producing None entries; only complete items and empty bracket pairs are rendered for it)", "AnyTokenExcept inside sequences", "containers longer than the bound"]
STUBS = []
ASSUMPTIONS = ["structure is enumerated exhaustively inside the bound"]

TOKENIZER = r"""
    (?P<SPACE>\s+)
    |(?P<COMMENT>/\*.*?\*/)
    |(?P<WORD>[a-z]+)
    |(?P<NUM>[0-9]+)
    |(?P<COMMA>,)
    |(?P<BRO>\[)
    |(?P<BRC>\])
    |(?P<CBO>\{)
    |(?P<CBC>\})
    |(?P<COLON>:)
    |(?P<AT>@)
    |(?P<SEMI>;)
"""
SYN = {"COMMA": ",", "BRO": "[", "BRC": "]", "CBO": "{", "CBC": "}", "COLON": ":", "AT": "@", "SEMI": ";"}

# item pool: words, lists, maps (maps as tuples of pairs so that repeated keys can be expressed)
M = lambda *pairs: ("map", pairs)
POOL: List[Any] = ["a", "bb", [], ["a"], ["a", ["b"]], M(), M(("k", "a")), M(("k", "a"), ("j", ["b"])), M(("k", "a"), ("k", "b")), ["a", ["b", M(("k", ["c"]))]]]
SEPS = [" ", "\n", " /* c */ ", ""]


def classify(record) -> str:
    return (record.get("message") or "").split("::")[0].strip()[:60] or "c05"


def _value(x):
    """abstract value -> expected Python data"""
    if isinstance(x, tuple) and x and x[0] == "map":
        d = {}
        for k, v in x[1]:
            d[k] = _value(v)
        return d
    if isinstance(x, list):
        return [_value(i) for i in x]
    return x


def _tokens(x) -> List[str]:
    """abstract value -> token list in the standard nested syntax ([..] with commas, {k: v, ...})"""
    if isinstance(x, tuple) and x and x[0] == "map":
        out = ["{"]
        for i, (k, v) in enumerate(x[1]):
            if i:
                out.append(",")
            out += [k, ":"] + _tokens(v)
        return out + ["}"]
    if isinstance(x, list):
        out = ["["]
        for i, v in enumerate(x):
            if i:
                out.append(",")
            out += _tokens(v)
        return out + ["]"]
    return [x]


def _join(tokens: List[str], sep: str) -> str:
    out = ""
    for i, t in enumerate(tokens):
        if i:
            s = sep
            if s == "" and (tokens[i - 1][-1].isalnum() and t[0].isalnum()):
                s = " "
            out += s
        out += t
    return out


def unwrap(t):
    from ak.llparser import TElement
    while isinstance(t, TElement):
        if t.is_leaf():
            t = t.value
        else:
            if len(t.value) != 1:
                raise Violation(f"shape :: cannot unwrap node {t.name} with {len(t.value)} children")
            t = t.value[0]
    if isinstance(t, list):
        return [unwrap(x) for x in t]
    if isinstance(t, dict):
        return {unwrap(k): unwrap(v) for k, v in t.items()}
    return t


def _list_parser(opts):
    import ak.llparser as L
    br, dl, afd, optional = opts["brackets"], opts["delimiter"], opts["afd"], opts["optional"]
    kw = {}
    if afd is not None:
        kw["allow_final_delimiter"] = afd
    if optional is not None:
        kw["optional"] = optional
    return L.LLParser(TOKENIZER, synonyms=dict(SYN), productions={
        "E": [("@", "OUTER", ";")],
        "OUTER": L.ListProds("[" if br else None, "VALUE", "," if dl else None, "]" if br else None, **kw),
        "VALUE": [("WORD",), ("LIST",), ("MAP",)] + ([None] if opts.get("nullable") else []),
        "LIST": L.ListProds("[", "VALUE", ",", "]"),
        "MAP": L.MapProds("{", "WORD", ":", "VALUE", ",", "}"),
    })


def _map_parser(opts):
    import ak.llparser as L
    kw = {"allow_final_delimiter": opts["afd"]}
    if opts["optional"] is not None:
        kw["optional"] = opts["optional"]
    br = opts.get("brackets", True)
    return L.LLParser(TOKENIZER, synonyms=dict(SYN), productions={
        "E": [("@", "OUTER", ";")],
        # (optionally the key symbol and the value symbol are one and the same symbol)
        "OUTER": L.MapProds("{" if br else None, "WORD", ":", "WORD" if opts.get("same_symbol") else "VALUE", ",", "}" if br else None, **kw),
        "VALUE": [("WORD",), ("LIST",), ("MAP",)],
        "LIST": L.ListProds("[", "VALUE", ",", "]"),
        "MAP": L.MapProds("{", "WORD", ":", "VALUE", ",", "}"),
    })


def _seq_parser():
    import ak.llparser as L
    return L.LLParser(TOKENIZER, synonyms=dict(SYN), productions={
        "E": [("@", "OUTER", ";")],
        "OUTER": L.ProdSequence("WORD", "NUM", ","),
    })


def _outer_of(root):
    from ak.llparser import TElement
    if root.name != "E" or root.is_leaf() or len(root.value) != 3:
        raise Violation(f"shape :: root is {root!r}")
    return root.value[1]


def _run_list(parser, opts, items, trailing: bool, present: bool, sep: str) -> None:
    import ak.llparser as L
    br, dl = opts["brackets"], opts["delimiter"]
    afd = opts["afd"] if opts["afd"] is not None else (dl and br)
    toks = ["@"]
    if present:
        if br:
            toks.append("[")
        for i, it in enumerate(items):
            if i and dl:
                toks.append(",")
            toks += _tokens(it)
        if trailing:
            toks.append(",")
        if br:
            toks.append("]")
    toks.append(";")
    text = _join(toks, sep)
    what = f"list options {opts} text {text!r}"
    should_fail = False
    if opts.get("nullable") and trailing:
        return          # with an item symbol that may be empty, 'a,]' may also be read as an omitted last item: not specified
    if trailing and not afd:
        should_fail = True
    if trailing and not items:
        should_fail = True          # '[,]' : a delimiter without an item
    if not present and br and not opts["optional"]:
        should_fail = True
    try:
        root = parser.parse(text)
    except L.ParsingError:
        if should_fail:
            return
        raise Violation(f"rejects :: {what}: ParsingError for a text the template should accept")
    except Exception as e:  # noqa
        raise Violation(f"raises :: {what}: {type(e).__name__}: {e}")
    if should_fail:
        raise Violation(f"accepts :: {what}: accepted, but {'a final delimiter is not allowed' if trailing else 'the list is not optional'}")
    outer = _outer_of(root)
    got = unwrap(outer)
    if not present and br:
        exp: Any = None
    else:
        exp = [_value(i) for i in items]
    if got != exp:
        raise Violation(f"wrong-value :: {what}: value {got!r}, expected {exp!r}")
    if isinstance(got, list) and isinstance(exp, list) and [type(x) for x in got] != [type(x) for x in exp]:
        raise Violation(f"wrong-types :: {what}: {got!r}")


def _run_map(parser, opts, pairs, trailing: bool, present: bool, sep: str) -> None:
    import ak.llparser as L
    toks = ["@"]
    br = opts.get("brackets", True)
    if present:
        if br:
            toks.append("{")
        for i, (k, v) in enumerate(pairs):
            if i:
                toks.append(",")
            toks += [k, ":"] + _tokens(v)
        if trailing:
            toks.append(",")
        if br:
            toks.append("}")
    toks.append(";")
    text = _join(toks, sep)
    what = f"map options {opts} text {text!r}"
    should_fail = (trailing and (not opts["afd"] or not pairs)) or (not present and not opts["optional"])
    try:
        root = parser.parse(text)
    except L.ParsingError:
        if should_fail:
            return
        raise Violation(f"rejects :: {what}: ParsingError for a text the template should accept")
    except Exception as e:  # noqa
        raise Violation(f"raises :: {what}: {type(e).__name__}: {e}")
    if should_fail:
        raise Violation(f"accepts :: {what}: accepted although it should be rejected")
    got = unwrap(_outer_of(root))
    if not present:
        exp: Any = None
    else:
        exp = {}
        for k, v in pairs:
            exp[k] = _value(v)
    if got != exp or (isinstance(got, dict) and list(got.keys()) != list(exp.keys())):
        raise Violation(f"wrong-value :: {what}: value {got!r}, expected {exp!r} (keys in source order, a repeated key keeps the last value)")


def h_list(first: int, trailing: bool, present: bool, sep: int, shard=None) -> None:
    n_max = shard["n_max"]
    reject_unless(-1 <= first < len(POOL) and 0 <= sep < len(SEPS))
    opts = shard["opts"]
    if not opts["brackets"]:
        reject_unless(present)
    if not present:
        reject_unless(first == -1 and not trailing)
    first, trailing, present, sep = realize(first), realize(trailing), realize(present), realize(sep)
    with concrete():
        parser = _list_parser(opts)
        if first == -1:
            _run_list(parser, opts, [], trailing, present, SEPS[sep])
            return
        from vf.xh import sweep_should_stop
        for n in range(0, n_max):
            for rest in itertools.product(range(len(POOL)), repeat=n):
                if sweep_should_stop():
                    return
                items = [POOL[first]] + [POOL[r] for r in rest]
                if not opts["delimiter"] and not opts["brackets"]:
                    pass
                _run_list(parser, opts, items, trailing, True, SEPS[sep])


def h_map(first: int, trailing: bool, present: bool, sep: int, shard=None) -> None:
    n_max = shard["n_max"]
    vals = [POOL[i] for i in (0, 2, 4, 5, 7, 9)]
    if shard["opts"].get("same_symbol"):
        vals = ["a", "bb", "k", "x", "j", "zz"]
    keys = ["k", "j"]
    entries = [(k, v) for k in keys for v in vals]
    reject_unless(-1 <= first < len(entries) and 0 <= sep < len(SEPS))
    if not present:
        reject_unless(first == -1 and not trailing)
    opts = shard["opts"]
    if not opts.get("brackets", True):
        reject_unless(present)          # without brackets a map with no pairs IS the empty text: {} (there is no 'absent')
    first, trailing, present, sep = realize(first), realize(trailing), realize(present), realize(sep)
    with concrete():
        parser = _map_parser(opts)
        if first == -1:
            _run_map(parser, opts, [], trailing, present, SEPS[sep])
            return
        from vf.xh import sweep_should_stop
        for n in range(0, n_max):
            for rest in itertools.product(range(len(entries)), repeat=n):
                if sweep_should_stop():
                    return
                pairs = [entries[first]] + [entries[r] for r in rest]
                _run_map(parser, opts, pairs, trailing, True, SEPS[sep])


def h_sequence(first: int, sep: int, shard=None) -> None:
    import ak.llparser as L
    elems = [("WORD", "a"), ("WORD", "bb"), ("NUM", "1"), (",", ",")]
    reject_unless(-1 <= first < len(elems) and 0 <= sep < len(SEPS))
    first, sep = realize(first), realize(sep)
    with concrete():
        parser = _seq_parser()
        seqs = [[]] if first == -1 else [[elems[first]] + [elems[r] for r in rest] for n in range(shard["n_max"]) for rest in itertools.product(range(len(elems)), repeat=n)]
        for seq in seqs:
            text = _join(["@"] + [v for _, v in seq] + [";"], SEPS[sep])
            try:
                root = parser.parse(text)
            except Exception as e:  # noqa
                raise Violation(f"raises :: sequence text {text!r}: {type(e).__name__}: {e}")
            outer = _outer_of(root)
            if not outer.is_leaf() or not isinstance(outer.value, list):
                raise Violation(f"shape :: sequence node is {outer!r}")
            got = [(x.name, x.value) for x in outer.value]
            if got != seq:
                raise Violation(f"wrong-value :: sequence text {text!r}: elements {got!r}, expected {seq!r}")


def _direct_parser(shape: int):
    """containers whose item / value symbol is DIRECTLY a bracket-less template (no production in between): a row of a table,
    the members of a group.  An occurrence with no items is the empty text and still one entry: an empty container"""
    import ak.llparser as L
    if shape == 0:      # table of rows, rows are words without delimiter
        prods = {"OUTER": L.ListProds("[", "ROW", ",", "]", allow_final_delimiter=False), "ROW": L.ListProds(None, "WORD", None, None)}
    elif shape == 1:    # map: group -> members, members delimited by ':'-free commas; pairs delimited by ';' would clash with E, use '@'
        prods = {"OUTER": L.MapProds("{", "WORD", ":", "ROW", "@", "}", allow_final_delimiter=False), "ROW": L.ListProds(None, "WORD", ",", None)}
    elif shape == 2:    # table of rows, rows are bracket-less maps
        prods = {"OUTER": L.ListProds("[", "ROW", "@", "]", allow_final_delimiter=False), "ROW": L.MapProds(None, "WORD", ":", "WORD", ",", None)}
    else:               # bracketed list of bracketed lists (control: nothing bracket-less)
        prods = {"OUTER": L.ListProds("[", "ROW", ",", "]", allow_final_delimiter=False), "ROW": L.ListProds("[", "WORD", ",", "]")}
    prods["E"] = [("@", "OUTER", ";")]
    return L.LLParser(TOKENIZER, synonyms=dict(SYN), productions=prods)


def h_direct(shape: int, n_rows: int, sep: int) -> None:
    """rows of 0..2 entries each, 1..3 rows (row count and shape are choice variables, row contents swept)"""
    import ak.llparser as L
    reject_unless(0 <= shape < 4 and 1 <= n_rows <= 3 and 0 <= sep < len(SEPS))
    shape, n_rows, sep = realize(shape), realize(n_rows), realize(sep)
    with concrete():
        parser = _direct_parser(shape)
        words = ["a", "bb", "c"]
        for sizes in itertools.product(range(3), repeat=n_rows):
            toks = ["@", "{" if shape == 1 else "["]
            exp: Any = {} if shape == 1 else []
            for r, size in enumerate(sizes):
                if r:
                    toks.append("," if shape in (0, 3) else "@")
                row_words = [words[(r + j) % 3] for j in range(size)]
                if shape == 1:
                    toks += [f"g{'xyz'[r]}", ":"]
                if shape == 3:
                    toks.append("[")
                if shape == 2:
                    for j, w in enumerate(row_words):
                        toks += ([","] if j else []) + [w, ":", w + "v"]
                    row_val: Any = {w: w + "v" for w in row_words}
                else:
                    for j, w in enumerate(row_words):
                        toks += ([","] if j and shape != 0 else []) + [w]
                    row_val = list(row_words)
                if shape == 3:
                    toks.append("]")
                if shape == 1:
                    exp[f"g{'xyz'[r]}"] = row_val
                else:
                    exp.append(row_val)
            toks += ["}" if shape == 1 else "]", ";"]
            if shape in (0, 2) and sizes == (0,):
                exp = []        # '[ ]': an empty bracket pair is the empty container (statement), not one empty row
            text = _join(toks, SEPS[sep])
            what = f"container with directly nested {'bracket-less ' if shape < 3 else ''}rows (shape {shape}) text {text!r}"
            try:
                root = parser.parse(text)
            except Exception as e:  # noqa
                raise Violation(f"raises :: {what}: {type(e).__name__}: {e}")
            got = unwrap(_outer_of(root))
            if got != exp:
                raise Violation(f"wrong-value :: {what}: value {got!r}, expected {exp!r}")


LIST_OPTS = [
    {"brackets": True, "delimiter": True, "afd": None, "optional": None}, {"brackets": True, "delimiter": True, "afd": False, "optional": None},
    {"brackets": True, "delimiter": True, "afd": None, "optional": True}, {"brackets": True, "delimiter": True, "afd": False, "optional": True},
    {"brackets": True, "delimiter": False, "afd": None, "optional": None}, {"brackets": True, "delimiter": False, "afd": None, "optional": True},
    {"brackets": False, "delimiter": True, "afd": None, "optional": None}, {"brackets": False, "delimiter": False, "afd": None, "optional": None},
]
MAP_OPTS = [{"afd": True, "optional": None}, {"afd": False, "optional": None}, {"afd": True, "optional": True}, {"afd": False, "optional": True}]


def jobs(tier: str) -> List[Job]:
    t = tier == "thorough"
    js = []
    for i, o in enumerate(LIST_OPTS):
        tag = ("br" if o["brackets"] else "nobr") + ("+dl" if o["delimiter"] else "") + ("+nofinal" if o["afd"] is False else "") + ("+opt" if o["optional"] else "")
        js.append(Job(__name__, "h_list", shard={"opts": o, "n_max": 4 if t else 3}, budget_s=2400 if t else 110, label=f"list:{tag}", must_exhaust=True))
    for i, o in enumerate(LIST_OPTS):
        if o["brackets"] and o["delimiter"]:
            tag = ("+nofinal" if o["afd"] is False else ("+final" if o["afd"] else "")) + ("+opt" if o["optional"] else "")
            js.append(Job(__name__, "h_list", shard={"opts": dict(o, nullable=True), "n_max": 3 if t else 2}, budget_s=1200 if t else 100,
                          label=f"list-nullable-item:br+dl{tag}", must_exhaust=True))
    for i, o in enumerate(MAP_OPTS):
        tag = ("final" if o["afd"] else "nofinal") + ("+opt" if o["optional"] else "")
        js.append(Job(__name__, "h_map", shard={"opts": o, "n_max": 3}, budget_s=2400 if t else 110, label=f"map:{tag}", must_exhaust=True))
    js.append(Job(__name__, "h_map", shard={"opts": {"afd": True, "optional": None, "same_symbol": True}, "n_max": 3}, budget_s=600 if t else 100,
                  label="map:key-and-value-same-symbol", must_exhaust=True))
    for afd in (True, False):
        js.append(Job(__name__, "h_map", shard={"opts": {"afd": afd, "optional": None, "brackets": False}, "n_max": 3}, budget_s=2400 if t else 100,
                      label=f"map:nobr+{'final' if afd else 'nofinal'}", must_exhaust=True))
    js.append(Job(__name__, "h_direct", budget_s=600 if t else 100, label="directly-nested-bracketless", must_exhaust=True))
    js.append(Job(__name__, "h_sequence", shard={"n_max": 6 if t else 5}, budget_s=600 if t else 100, label="sequence", must_exhaust=True))
    return js
