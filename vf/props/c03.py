"""C03 - left-recursive grammars are rejected; accepted grammars always terminate (XH-driven exhaustive enumeration).

Same grammar families; additionally the assignment of symbol NAMES is a choice variable (7 permutations that realise every
relative alphabetical order of start / nullable / recursive symbols - the constructor's check walks symbols in name order).
Oracle: nullable fixpoint + cycle search in the 'can start with, after nullable prefixes' graph over ALL symbols.
Termination: the real parse loop runs with a step budget (harness-side subclass of _StackElement).
"""
from __future__ import annotations

from typing import List

from vf.core import Job
from vf.props import _grammar as G
from vf.props import c01
from vf.xh import Reject, Violation, concrete, realize, reject_unless

PROPERTY_ID = "C03"
FUNCTIONS = ["ak.llparser.LLParser._verify_grammar_structure_part2", "ak.llparser.LLParser._get_nullables", "ak.llparser.GrammarIsRecursive.__init__",
             "ak.llparser.LLParser.__init__", "ak.llparser.LLParser.parse"]
BOUNDS = {k: dict(v, names="7 assignments of names to the non-terminal roles (all relative alphabetical orders)") for k, v in c01.BOUNDS.items()}
OUTSIDE = ["grammars outside the families", "inputs longer than the bound (termination is checked by a step budget of 20000 per parse; real need for these sizes is < 2000)"]
STUBS = c01.STUBS
ASSUMPTIONS = ["a parse that exceeds 20000 parser steps on an input of <= 6 tokens is counted as non-terminating"]
MAXLEN = {"quick": 3, "thorough": 5}


def classify(record) -> str:
    return (record.get("message") or "").split("::")[0].strip()[:60] or "c03"


def _check_grammar(family, holes, perm, maxlen, reverse=False) -> None:
    names = G.NAME_PERMS[perm]
    g = G.instantiate(family, holes, names, reverse)
    start = names["S"]
    rec = G.left_recursive(g)
    for smart in (True, False):
        parser, err = G.build_parser(g, start, smart)
        what = f"grammar [{G.describe(g)}] smart={smart}"
        if err == "GrammarIsRecursive":
            if not rec:
                raise Violation(f"false-recursive :: {what}: GrammarIsRecursive raised, but no symbol can reach itself without consuming a token")
            continue
        if parser is None:
            continue        # rejected for another reason: outside the property
        if rec:
            # the constructor accepted a left-recursive grammar; show the consequence too when there is one
            for toks in G.all_token_strings(maxlen, G.terms_of(g)):
                kind, _ = G.parse_tokens(parser, toks, fuel_limit=5000)
                if kind == "fuel":
                    raise Violation(f"accepts-recursive-and-loops :: {what}: left-recursive grammar accepted; parse of {' '.join(toks)!r} grows its stack without bound")
            raise Violation(f"accepts-recursive :: {what}: some symbol can reach itself without consuming a token, yet the constructor accepted the grammar")
        for toks in G.all_token_strings(maxlen, G.terms_of(g)):
            kind, val = G.parse_tokens(parser, toks)
            if kind == "fuel":
                raise Violation(f"no-termination :: {what}: parse of {' '.join(toks)!r} does not finish within the step budget")
            if kind == "exc":
                raise Violation(f"parse-raises :: {what}: input {' '.join(toks)!r}: {type(val).__name__}: {val}")


def h_family(h0: int, h1: int, h2: int, h3: int, h4: int, perm: int, shard=None) -> None:
    fam = shard["family"]
    n = G.n_holes(fam)
    dom = len(G.FAMILIES[fam][1])
    hs = [h0, h1, h2, h3, h4]
    for i in range(5):
        if i < n:
            reject_unless(0 <= hs[i] < dom)
        else:
            reject_unless(hs[i] == 0)
    reject_unless(perm in shard["perms"])
    reverse = (perm % 2 == 1)     # odd name permutations also declare the symbols bottom-up
    if "h0" in shard:
        reject_unless(h0 == shard["h0"])
    hs = [realize(x) for x in hs]
    perm = realize(perm)
    with concrete():
        _check_grammar(fam, hs[:n], perm, shard["maxlen"], perm % 2 == 1)


def replay_h_family(record):
    from vf.core import decode_args
    a = decode_args(record["args"])
    shard = record["fixed"]["shard"]
    n = G.n_holes(shard["family"])
    try:
        _check_grammar(shard["family"], [a[f"h{i}"] for i in range(5)][:n], a["perm"], shard["maxlen"], a["perm"] % 2 == 1)
    except Violation as e:
        return str(e)
    except Reject:
        return "REJECTED"
    return None


def h_templates(k: int, names_i: int, shard=None) -> None:
    """grammars that also use list / map templates: the verdict on recursion is the same, reported by the same exception"""
    import ak.llparser as L
    from vf.props.c05 import SYN, TOKENIZER
    reject_unless(0 <= k < 8 and 0 <= names_i < 2)
    k, names_i = realize(k), realize(names_i)
    with concrete():
        e, a, n = [("E", "A", "N"), ("Zz", "Bb", "Aa")][names_i]
        shapes = [
            ({e: [(e, "WORD"), ("LST",), ("MP",)]}, True),                                            # direct
            ({e: [(a, "WORD"), ("LST",)], a: [(e, "NUM"), ("MP",)]}, True),                            # through another symbol
            ({e: [(n, e, "WORD"), ("LST",), ("MP",)], n: [("NUM",), None]}, True),                     # hidden behind a nullable
            ({e: [("WORD", e), ("LST",), ("MP",)]}, False),                                            # right recursion only
            ({e: [(n, "WORD", e), ("LST",), ("MP",)], n: [("NUM",), None]}, False),
        ]
        prods, recursive = shapes[k % 5]
        prods = dict(prods)
        two_lists = k >= 5
        prods["LST"] = L.ListProds("[", "WORD", ",", "]")
        prods["MP"] = L.ListProds("{", "NUM", ",", "}") if two_lists else L.MapProds("{", "WORD", ":", "WORD", ",", "}")
        what = f"productions { {s: (v if isinstance(v, list) else type(v).__name__) for s, v in prods.items()} }"
        try:
            p = L.LLParser(TOKENIZER, synonyms=dict(SYN), productions=prods, start_symbol_name=e)
        except L.GrammarIsRecursive:
            if not recursive:
                raise Violation(f"false-recursive :: {what}: GrammarIsRecursive raised, but no symbol can reach itself without consuming a token")
            return
        except Exception as ex:  # noqa
            raise Violation(f"{'wrong-exception' if recursive else 'raises'} :: {what}: the constructor raises {type(ex).__name__} "
                            f"({'a left-recursive grammar is reported by GrammarIsRecursive' if recursive else 'the grammar is valid'}): {str(ex)[:200]}")
        if recursive:
            raise Violation(f"accepts-recursive :: {what}: left-recursive grammar accepted")
        for text in ("a [ a , b ]", "a a { }", "[ ]"):
            try:
                with G.Fuel(20000):
                    p.parse(text)
            except G.FuelExhausted:
                raise Violation(f"no-termination :: {what}: parse({text!r}) exceeds the step budget")
            except L.ParsingError:
                pass


def jobs(tier: str) -> List[Job]:
    t = tier == "thorough"
    js = []
    for fam in G.FAMILIES:
        dom = len(G.FAMILIES[fam][1])
        perms = list(range(len(G.NAME_PERMS)))
        if G.n_holes(fam) >= 4:
            for h0 in range(dom):
                js.append(Job(__name__, "h_family", shard={"family": fam, "maxlen": MAXLEN[tier], "h0": h0, "perms": perms if t else [0, 2, 3, 5]},
                              budget_s=1500 if t else 110, label=f"family:{fam}:h0={h0}", must_exhaust=True))
        else:
            js.append(Job(__name__, "h_family", shard={"family": fam, "maxlen": MAXLEN[tier], "perms": perms}, budget_s=1500 if t else 110, label=f"family:{fam}", must_exhaust=True))
    js.append(Job(__name__, "h_templates", shard={}, budget_s=100, label="grammars-with-templates", must_exhaust=True))
    return js
