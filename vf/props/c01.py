"""C01 - every parse result is a valid derivation of the user's grammar (XH-driven exhaustive enumeration).

Grammars come from shape families with holes aimed at the anchored mechanisms (common prefixes, nested prefixes with
nullable remainders, single-terminal prefixes that 'smart' un-factorises, roll-back after collected children, nullable +
ambiguous alternatives, wide suffix groups, recursion).  The holes are z3 choice variables (enumerated exhaustively);
for every grammar both smart_factorization settings and ALL token strings up to the length bound are parsed by the real
parser and every returned tree is checked by an independent derivation checker.
"""
from __future__ import annotations

from typing import List

from vf.core import Job
from vf.props import _grammar as G
from vf.xh import Violation, concrete, realize, reject_unless

PROPERTY_ID = "C01"
FUNCTIONS = ["ak.llparser.LLParser.__init__", "ak.llparser.LLParser.parse", "ak.llparser.LLParser._create_productions", "ak.llparser.LLParser._factorize_productions",
             "ak.llparser.LLParser._factorize_prods_list", "ak.llparser.LLParser._factorize_common_prefix_prods", "ak.llparser.LLParser._split_prods_rules",
             "ak.llparser.LLParser._make_llone_table", "ak.llparser.LLParser._calc_first_sets", "ak.llparser.LLParser._calc_follow_sets", "ak.llparser.LLParser._get_nullables",
             "ak.llparser._Tokenizer.tokenize", "ak.llparser._StackElement.switch_to_next_prod", "ak.llparser._StackElement.next_matched", "ak.llparser.TElement.__init__"]
BOUNDS = {
    "quick": {"grammars": f"{len(G.FAMILIES)} shape families, every instantiation of their holes (up to 5 holes over 5-6 symbols; {sum(len(G.FAMILIES[f][1]) ** G.n_holes(f) for f in G.FAMILIES)} grammars), both smart_factorization settings",
              "inputs": "ALL token strings of length <= 4 over 3 terminals (one reached through a synonym, one through a keyword), rendered to text and tokenised by the real tokenizer"},
}
BOUNDS["thorough"] = dict(BOUNDS["quick"], inputs=BOUNDS["quick"]["inputs"].replace("<= 4", "<= 6"))
OUTSIDE = ["grammars outside the families / larger sizes", "ProdsTemplate grammars (C05)", "AnyTokenExcept", "parses that exceed the step budget (C03's subject)"]
STUBS = ["_StackElement is subclassed (harness side) to count parser steps: a fuel of 20000 steps per parse"]
ASSUMPTIONS = ["structure is enumerated exhaustively inside the bound; nothing is claimed beyond it"]
MAXLEN = {"quick": 4, "thorough": 6}


def classify(record) -> str:
    return (record.get("message") or "").split("::")[0].strip()[:60] or "c01"


def _check_grammar(family, holes, perm, maxlen, reverse=False) -> None:
    names = G.NAME_PERMS[perm]
    g = G.instantiate(family, holes, names, reverse)
    start = names["S"]
    built = 0
    for smart in (True, False):
        parser, err = G.build_parser(g, start, smart)
        if parser is None:
            continue
        built += 1
        for toks in G.all_token_strings(maxlen, G.terms_of(g)):
            kind, val = G.parse_tokens(parser, toks)
            what = f"grammar [{G.describe(g)}] smart={smart} input {' '.join(toks)!r}"
            if kind == "tree":
                e = G.check_derivation(val, g, start, toks)
                if e:
                    raise Violation(f"bad-tree :: {what}: {e}")
            elif kind == "exc":
                raise Violation(f"parse-raises :: {what}: {type(val).__name__}: {val}")
            elif kind == "fuel":
                break       # non-termination is C03's subject; nothing is returned, so nothing to check here
    if not built:
        from vf.xh import Reject
        raise Reject()


def h_family(h0: int, h1: int, h2: int, h3: int, h4: int, rev: bool, shard=None) -> None:
    fam = shard["family"]
    n = G.n_holes(fam)
    dom = len(G.FAMILIES[fam][1])
    hs = [h0, h1, h2, h3, h4]
    for i in range(5):
        if i < n:
            reject_unless(0 <= hs[i] < dom)
        else:
            reject_unless(hs[i] == 0)
    if "h0" in shard:
        reject_unless(h0 == shard["h0"])
    hs = [realize(x) for x in hs]
    rev = realize(rev)
    with concrete():
        _check_grammar(fam, hs[:n], shard.get("perm", 0), shard["maxlen"], rev)


def replay_h_family(record):
    from vf.core import decode_args
    a = decode_args(record["args"])
    shard = record["fixed"]["shard"]
    n = G.n_holes(shard["family"])
    try:
        _check_grammar(shard["family"], [a[f"h{i}"] for i in range(5)][:n], shard.get("perm", 0), shard["maxlen"], a.get("rev", False))
    except Violation as e:
        return str(e)
    except BaseException as e:  # noqa (Reject)
        if type(e).__name__ == "Reject":
            return "REJECTED"
        raise
    return None


# ---------------------------------------------------------------------------------------------------
# token filtering: which tokens are skipped is the user's choice (skip_tokens), incl. "nothing"
# ---------------------------------------------------------------------------------------------------
SKIP_TOKENIZER = r"""
    (?P<SPACE>\s+)
    |(?P<COMMENT>\#[a-z]*)
    |(?P<X>x)
    |(?P<SEMI>;)
"""
SKIP_PRODS = {"E": [("ITEM", "E"), None], "ITEM": [("X", "GAP", "GAP", "SEMI")], "GAP": [("SPACE",), ("COMMENT",), None]}
SKIP_CHOICES = [None, set(), [], {"SPACE"}, {"COMMENT"}, ("SPACE", "COMMENT"), {"X"}]
SKIP_ALPHABET = ["x", " ", "#c", ";"]


def _skip_case(skip_i: int, text: str) -> None:
    import re
    import ak.llparser as L
    skip = SKIP_CHOICES[skip_i]
    kw = {} if skip is None else {"skip_tokens": skip}
    parser = L.LLParser(SKIP_TOKENIZER, productions={k: list(v) for k, v in SKIP_PRODS.items()}, **kw)
    eff = {"SPACE", "COMMENT"} if skip is None else set(skip)           # documented default
    rx = re.compile(SKIP_TOKENIZER, re.VERBOSE)
    toks, pos = [], 0
    while pos < len(text):
        m = rx.match(text, pos)
        toks.append((m.lastgroup, m.group(m.lastgroup)))
        pos = m.end()
    want = [(n, v) for n, v in toks if n not in eff]
    try:
        # (given as a list of lines: a str input has the trailing white space of every line removed before tokenizing)
        root = parser.parse([text] if text != text.rstrip() else text, do_cleanup=False)
    except L.ParsingError:
        return
    leaves = []

    def walk(node):
        if node.name in SKIP_PRODS:
            kids = tuple(c.name for c in (node.value or []))
            if kids not in [tuple(a) if a else () for a in SKIP_PRODS[node.name]]:
                raise Violation(f"bad-tree :: skip_tokens={skip!r} text {text!r}: node {node.name} with children {kids} is not a production")
            for c in (node.value or []):
                walk(c)
        else:
            leaves.append((node.name, node.value))
    if root.name != "E":
        raise Violation(f"bad-tree :: skip_tokens={skip!r} text {text!r}: root is {root.name}")
    walk(root)
    if leaves != want:
        raise Violation(f"skipped-tokens :: skip_tokens={skip!r} text {text!r}: leaves {leaves} are not the non-skipped tokens {want}")


def h_skip_tokens(skip_i: int, c0: int, shard=None) -> None:
    """every text of <= n symbols over {x, ' ', '#c', ';'} under every skip_tokens choice (first symbol and choice: z3 variables)"""
    import itertools
    from vf.xh import concrete
    n = shard["n"]
    reject_unless(0 <= skip_i < len(SKIP_CHOICES) and 0 <= c0 < len(SKIP_ALPHABET))
    skip_i, c0 = realize(skip_i), realize(c0)
    with concrete():
        from vf.xh import sweep_should_stop
        for k in range(0, n):
            for rest in itertools.product(SKIP_ALPHABET, repeat=k):
                if sweep_should_stop():
                    return
                _skip_case(skip_i, SKIP_ALPHABET[c0] + "".join(rest))
        _skip_case(skip_i, "")


def replay_h_skip_tokens(record):
    import re
    msg = record.get("message") or ""
    m = re.search(r"skip_tokens=(.*?) text ('.*?'|\".*?\"):", msg)
    if not m:
        return "cannot parse the failing case"
    import ast
    skip = eval(m.group(1), {"set": set})      # one of SKIP_CHOICES, printed by repr
    text = ast.literal_eval(m.group(2))
    idx = [i for i, c in enumerate(SKIP_CHOICES) if c == skip and type(c) is type(skip)]
    try:
        _skip_case(idx[0], text)
    except Violation as e:
        return str(e)
    return None


def jobs(tier: str) -> List[Job]:
    t = tier == "thorough"
    js = []
    for fam in G.FAMILIES:
        dom = len(G.FAMILIES[fam][1])
        if G.n_holes(fam) >= 4:
            for h0 in range(dom):
                js.append(Job(__name__, "h_family", shard={"family": fam, "maxlen": MAXLEN[tier], "h0": h0}, budget_s=1500 if t else 110, label=f"family:{fam}:h0={h0}", must_exhaust=True, allow_vacuous=True))
        else:
            js.append(Job(__name__, "h_family", shard={"family": fam, "maxlen": MAXLEN[tier]}, budget_s=1500 if t else 110, label=f"family:{fam}", must_exhaust=True, allow_vacuous=True))
    js.append(Job(__name__, "h_skip_tokens", shard={"n": 7 if t else 6}, budget_s=900 if t else 100, label="skip-tokens", must_exhaust=True))
    return js
