"""C09 - emitted escape sequences are well-formed, self-contained and strippable.

P2S: the real source of _ColorSequences.make/_make_seq_element is executed over z3 terms (color codes, (r,g,b)
components, gray shades: symbolic unbounded ints; effects: symbolic bools).  For every path:
  * accept/reject contract (ValueError exactly for invalid values),
  * the emitted prefix, fed to a reference SGR interpreter (forking natively on the same solver), leaves a terminal that
    started in default state in exactly the requested state; the suffix returns it to default,
  * RX: the prefix/suffix, as z3 string terms, are members of the live strip pattern's language (translated from the
    compiled pattern object) and of ESC [^ESC m]* m (self-delimiting lemma).
XH: no_color / bytes / error contract / strip_colors(str(x)) == plain_text on the real objects.
"""
from __future__ import annotations

import time
from typing import Any, Dict, List, Optional

import z3

from vf import p2s, rx
from vf.core import Job
from vf.xh import Violation, realize, reject_unless

PROPERTY_ID = "C09"
FUNCTIONS = ["ak.color._ColorSequences.make", "ak.color._ColorSequences._make_seq_element", "ak.color.ColorFmt.__init__",
             "ak.color.ColorFmt.__call__", "ak.color.ColorBytes.__init__", "ak.color.ColorBytes.__call__", "ak.color._CHTextChunk.__str__",
             "ak.color.CHText.__str__", "ak.color.CHText.strip_colors"]
NAMES = ["BLACK", "RED", "GREEN", "YELLOW", "BLUE", "MAGENTA", "CYAN", "WHITE"]   # from the ColorFmt documentation
EFFECTS = ["bold", "faint", "underline", "blink", "crossed"]
EFFECT_CODES = {"bold": 1, "faint": 2, "underline": 4, "blink": 5, "crossed": 9}
BOUNDS = {
    "quick": {"color values": "int codes, (r,g,b) components and gray shades: ALL ints (unbounded, symbolic); tuples of length 0..4; 8 documented names + 6 invalid names",
              "kinds": "every pair (foreground kind, background kind) from {absent, name, int, (r,g,b), gray}; all 32 effect combinations (symbolic bools); no_color and bytes variants",
              "texts": "XH: chunk texts of length <= 3 without ESC; CHText of <= 3 chunks"},
}
BOUNDS["thorough"] = BOUNDS["quick"]
OUTSIDE = ["bool / float color values, list instead of tuple", "texts containing the escape character", "terminal behaviours beyond the SGR subset modelled (reset, 1/2/4/5/9, 30-37, 40-47, 38:5:n, 48:5:n, legacy 38;5;n)"]
STUBS = ["reference SGR interpreter written from ECMA-48 / xterm documentation is the terminal model"]
ASSUMPTIONS = ["re.sub finds a match at a position whenever the pattern language contains one (complete backtracking)", "z3 sequence/regex theory"]


def classify(record) -> str:
    return (record.get("message") or "").split("::")[0].strip()[:60] or "c09"


# ---------------------------------------------------------------------------------------------------
# reference SGR interpreter (symbolic: forks through the engine)
# ---------------------------------------------------------------------------------------------------
class Malformed(Exception):
    pass


def _atoms(rope: p2s.SStr):
    out = []
    for seg in rope.segs:
        if isinstance(seg, str):
            out.extend(seg)
        elif isinstance(seg, p2s.Dec):
            if seg.fmt:
                raise p2s.Untranslatable("format spec in escape sequence")
            out.append(seg)
        else:
            raise Malformed("opaque character inside the sequence")
    return out


def _number(eng: p2s.Engine, parts):
    """parts: list of digit chars / Dec -> int or z3 Int"""
    if not parts:
        return 0            # empty parameter == 0
    if all(isinstance(p, str) for p in parts):
        return int("".join(parts))
    if len(parts) == 1:
        n = parts[0].n
        if not eng.branch(n >= 0):
            raise Malformed("negative number inside the sequence")
        return n
    # concatenation of digits and decimal renderings
    val: Any = 0
    for p in parts:
        if isinstance(p, str):
            val = val * 10 + int(p)
        else:
            n = p.n
            if not eng.branch(n >= 0):
                raise Malformed("negative number inside the sequence")
            if eng.branch(n < 10):
                val = val * 10 + n
            elif eng.branch(n < 100):
                val = val * 100 + n
            elif eng.branch(n < 1000):
                val = val * 1000 + n
            else:
                raise p2s.Untranslatable("number with more than 3 symbolic digits glued to other digits")
    return val


def _parse_seq(eng: p2s.Engine, rope: p2s.SStr):
    """ESC [ params m -> list of groups (each a list of sub-parameter values)"""
    at = _atoms(rope)
    if len(at) < 3 or at[0] != "\033" or at[1] != "[" or at[-1] != "m":
        raise Malformed("not of the form ESC [ ... m")
    body = at[2:-1]
    groups: List[List[Any]] = [[]]
    cur: List[Any] = []
    for a in body:
        if a == ";":
            groups[-1].append(_number(eng, cur))
            cur = []
            groups.append([])
        elif a == ":":
            groups[-1].append(_number(eng, cur))
            cur = []
        elif isinstance(a, p2s.Dec) or (isinstance(a, str) and a.isdigit() and a.isascii()):
            cur.append(a)
        else:
            raise Malformed(f"character {a!r} inside the parameter list")
    groups[-1].append(_number(eng, cur))
    return groups


def _is(eng, v, k) -> bool:
    if isinstance(v, int):
        return v == k
    return eng.branch(v == k)


def _in(eng, v, lo, hi) -> bool:
    if isinstance(v, int):
        return lo <= v <= hi
    return eng.branch(z3.And(v >= lo, v <= hi))


def sgr_apply(eng: p2s.Engine, rope: p2s.SStr, state: Dict[str, Any]) -> Dict[str, Any]:
    st = dict(state)
    groups = _parse_seq(eng, rope)
    i = 0
    while i < len(groups):
        g = groups[i]
        i += 1
        v = g[0]
        if len(g) > 1:
            if len(g) == 3 and _is(eng, g[1], 5) and _in(eng, g[2], 0, 255):
                if _is(eng, v, 38):
                    st["fg"] = g[2]
                    continue
                if _is(eng, v, 48):
                    st["bg"] = g[2]
                    continue
            raise Malformed("unsupported colon-separated parameter")
        if _is(eng, v, 0):
            st = {"fg": -1, "bg": -1, **{e: False for e in EFFECTS}}
            continue
        done = False
        for e, code in EFFECT_CODES.items():
            if _is(eng, v, code):
                st[e] = True
                done = True
                break
        if done:
            continue
        if _in(eng, v, 30, 37):
            st["fg"] = v - 30
            continue
        if _in(eng, v, 40, 47):
            st["bg"] = v - 40
            continue
        if (_is(eng, v, 38) or _is(eng, v, 48)) and i + 1 < len(groups) and len(groups[i]) == 1 and len(groups[i + 1]) == 1 \
                and _is(eng, groups[i][0], 5) and _in(eng, groups[i + 1][0], 0, 255):
            st["fg" if _is(eng, v, 38) else "bg"] = groups[i + 1][0]
            i += 2
            continue
        raise Malformed("parameter without a defined meaning in the modelled SGR subset")
    return st


DEFAULT = {"fg": -1, "bg": -1, **{e: False for e in EFFECTS}}


def sgr_concrete(text: str):
    """concrete terminal model: -> list of (char, state) for visible characters, final state; raises Malformed"""
    eng = p2s.Engine()
    eng._decisions, eng._pos, eng._pc, eng._worklist = [], 0, [], []
    st = dict(DEFAULT)
    out = []
    i = 0
    while i < len(text):
        if text[i] == "\033":
            j = text.find("m", i)
            if j < 0:
                raise Malformed("unterminated sequence")
            st = sgr_apply(eng, p2s.SStr((text[i:j + 1],)), st)
            i = j + 1
        else:
            out.append((text[i], tuple(sorted(st.items()))))
            i += 1
    return out, st


# ---------------------------------------------------------------------------------------------------
# rope -> z3 String
# ---------------------------------------------------------------------------------------------------
_DIG = [0]


def rope_to_z3(rope: p2s.SStr, cons: List[Any]):
    """rope -> z3 String term.  A decimal rendering str(n) (0 <= n < 10000, established by a separate query) is
    over-approximated by a fresh string in 0|[1-9][0-9]{0,3}: sound for inclusion queries (a superset of the emitted
    language is shown to be included); a sat answer is confirmed by concrete replay of the model's n."""
    parts = []
    dec = z3.Union(z3.Re("0"), z3.Concat(z3.Range("1", "9"), z3.Loop(z3.Range("0", "9"), 0, 3)))
    for seg in rope.segs:
        if isinstance(seg, str):
            parts.append(z3.StringVal(seg))
        elif isinstance(seg, p2s.Dec):
            _DIG[0] += 1
            d = z3.String(f"dec{_DIG[0]}")
            cons.append(z3.InRe(d, dec))
            parts.append(d)
        else:
            raise p2s.Untranslatable("opaque character in rope")
    if not parts:
        return z3.StringVal("")
    return parts[0] if len(parts) == 1 else z3.Concat(*parts)


# ---------------------------------------------------------------------------------------------------
# symbolic inputs
# ---------------------------------------------------------------------------------------------------
def _unused():
    pass


def _mk_color(kind: str, tag: str):
    """-> (value for P2S, valid-condition (z3 Bool / bool), expected palette index (z3/int), describe(model)->python value)"""
    if kind == "none":
        return None, True, -1, lambda m: None
    if kind.startswith("name:"):
        nm = kind[5:]
        return nm, nm in NAMES, (NAMES.index(nm) if nm in NAMES else -2), lambda m: nm
    if kind == "int":
        c = z3.Int(f"{tag}_c")
        return c, z3.And(c >= 0, c <= 255), c, lambda m: m.eval(c, model_completion=True).as_long()
    if kind.startswith("tuple"):
        k = int(kind[5:])
        xs = [z3.Int(f"{tag}_t{i}") for i in range(k)]
        valid = z3.And(*[z3.And(x >= 0, x <= 5) for x in xs]) if k == 3 else False
        exp = 16 + 36 * xs[0] + 6 * xs[1] + xs[2] if k == 3 else -2
        return tuple(xs), valid, exp, lambda m: tuple(m.eval(x, model_completion=True).as_long() for x in xs)
    if kind == "gray":
        n = z3.Int(f"{tag}_g")
        return p2s.SStr(("g", p2s.Dec(n))), z3.And(n >= 0, n <= 23), 232 + n, lambda m: "g" + str(m.eval(n, model_completion=True).as_long())
    if kind.startswith("str:"):
        s = kind[4:]
        return s, False, -2, lambda m: s
    raise ValueError(kind)


def _domain(kind, tag):
    if kind == "gray":
        return [z3.Int(f"{tag}_g") >= 0]     # 'g' + str(n) for n >= 0 (negative shades are the literal string 'g-1', tested concretely)
    return []


def q_mapping(shard=None) -> Dict[str, Any]:
    import ak.color as C
    res: Dict[str, Any] = {"queries": 0, "unsat": 0, "sat": 0, "inconclusive": False, "samples": [], "paths": 0}
    t0 = time.perf_counter()
    eng = p2s.Engine(max_paths=20000, timeout_ms=30000)
    # live strip pattern
    C.CHText.strip_colors("")
    pat = C.CHText._SEQ_RE
    ce = None
    try:
        R_under = rx.to_z3(pat.pattern, pat.flags & ~32, "under")   # 32 = re.UNICODE (implied for str patterns)
        R_over = rx.to_z3(pat.pattern, pat.flags & ~32, "over")
        anyc = rx.any_char()
        shape = z3.Concat(z3.Re("\033"), z3.Star(z3.Diff(anyc, z3.Union(z3.Re("\033"), z3.Re("m")))), z3.Re("m"))
        res["strip_pattern"] = pat.pattern
        # lemma: every string the strip pattern matches is ESC [^ESC m]* m   (so a match starting at a sequence ends with it)
        s = z3.String("s")
        r = eng.check([z3.InRe(s, R_over), z3.Not(z3.InRe(s, shape))])
        if r == "sat":
            w = eng.last_model.eval(s).as_string()
            ce = {"message": "strip-not-self-delimiting :: the strip pattern can match text that is not a single ESC...m sequence", "args": {"witness": w, "pattern": pat.pattern},
                  "replay_hint": {"kind": "strip_shape", "witness": w}}
        elif r == "unknown":
            res["inconclusive"] = True
        else:
            res["unsat"] += 1
        r = eng.check([z3.InRe(s, R_under)])   # reachability twin: the pattern language is not empty
        if r != "sat":
            res["error"] = "vacuous: strip pattern language empty/unknown"
            return res

        kinds = shard["kinds"]
        for fgk, bgk in kinds:
            if ce:
                break
            fg, fg_valid, fg_exp, fg_descr = _mk_color(fgk, "fg")
            bg, bg_valid, bg_exp, bg_descr = _mk_color(bgk, "bg")
            effs = {e: z3.Bool(f"eff_{e}") for e in EFFECTS}
            no_color = z3.Bool("no_color")
            for make_bytes in (False, True):
                if ce:
                    break
                outs = eng.explore(C._ColorSequences.make, (fg, bg, effs["bold"], effs["faint"], effs["underline"], effs["blink"], effs["crossed"], no_color, make_bytes),
                                   assumptions=_domain(fgk, "fg") + _domain(bgk, "bg"))
                res["paths"] += len(outs)
                valid = z3.And(z3.BoolVal(fg_valid) if isinstance(fg_valid, bool) else fg_valid, z3.BoolVal(bg_valid) if isinstance(bg_valid, bool) else bg_valid)

                def describe(m):
                    d = {"color": fg_descr(m), "bg_color": bg_descr(m), "no_color": bool(m.eval(no_color, model_completion=True)), "make_bytes": make_bytes}
                    for e in EFFECTS:
                        d[e] = bool(m.eval(effs[e], model_completion=True))
                    return d

                def fail(msg, pc_extra, o):
                    r = eng.check(o.pc + pc_extra)
                    if r == "sat":
                        d = describe(eng.last_model)
                        return {"message": msg, "args": d, "replay_hint": {"kind": "fmt", "kwargs": d}}
                    if r == "unknown":
                        res["inconclusive"] = True
                    else:
                        res["unsat"] += 1
                    return None

                for o in outs:
                    if ce:
                        break
                    if o.kind == "raise":
                        if not issubclass(o.exc, ValueError):
                            ce = fail(f"raises-{o.exc.__name__} :: an invalid color value raises {o.exc.__name__} instead of ValueError", [], o)
                            continue
                        # raising is right only for an invalid value and only when colors are on
                        ce = fail("rejects-valid :: a valid color specification is rejected with ValueError", [valid], o) or \
                            fail("no_color-raises :: a no_color formatter raises for its (ignored) color arguments", [no_color], o)
                        continue
                    pre, suf = o.value
                    if make_bytes:
                        if not (isinstance(pre, tuple) and pre[0] == "__bytes__" and isinstance(suf, tuple)):
                            ce = fail("bytes-type :: the bytes formatter does not produce bytes", [], o)
                            continue
                        pre, suf = pre[1], suf[1]
                    pre, suf = p2s.SStr.of(pre), p2s.SStr.of(suf)
                    ce = fail("accepts-invalid :: an invalid color specification is accepted (colors on)", [z3.Not(valid), z3.Not(no_color)], o)
                    if ce:
                        continue
                    # no_color => nothing emitted
                    if pre.segs or suf.segs:
                        ce = fail("no_color-emits :: a no_color formatter emits an escape sequence", [no_color], o)
                        if ce:
                            continue
                    # colors on: terminal state after prefix == requested, after suffix == default
                    on = [z3.Not(no_color)]
                    if eng.check(o.pc + on) != "sat":
                        continue
                    want_any = z3.Or(*( [effs[e] for e in EFFECTS]
                                        + ([z3.BoolVal(True)] if fgk != "none" else []) + ([z3.BoolVal(True)] if bgk != "none" else [])))
                    if not pre.segs:
                        ce = fail("missing-sequence :: effects/colors requested but nothing is emitted", on + [want_any], o)
                        if ce:
                            continue
                        if suf.segs:
                            ce = fail("dangling-suffix :: suffix without prefix", on, o)
                        continue

                    def interp(e2, pre=pre, suf=suf):
                        try:
                            st1 = sgr_apply(e2, pre, DEFAULT)
                        except Malformed as ex:
                            return ("malformed-prefix", str(ex))
                        try:
                            st2 = sgr_apply(e2, suf, st1) if suf.segs else st1
                        except Malformed as ex:
                            return ("malformed-suffix", str(ex))
                        return ("ok", st1, st2)
                    for io in eng.explore_native(interp, assumptions=o.pc + on):
                        tag = io.value[0]
                        o2 = p2s.Outcome(io.pc, "return")
                        if tag != "ok":
                            ce = fail(f"{tag} :: emitted sequence is not well-formed SGR: {io.value[1]}", [], o2)
                            if ce:
                                break
                            continue
                        st1, st2 = io.value[1], io.value[2]
                        conds = [p2s.to_z3_int(st1["fg"]) == p2s.to_z3_int(fg_exp), p2s.to_z3_int(st1["bg"]) == p2s.to_z3_int(bg_exp)]
                        for e in EFFECTS:
                            conds.append(effs[e] == z3.BoolVal(bool(st1[e])))
                        ce = fail("wrong-state :: after the prefix the terminal is not in the requested state", [z3.Not(z3.And(*conds))], o2)
                        if ce:
                            break
                        if st2 != DEFAULT:
                            ce = fail("bleeds :: after the suffix the terminal is not back in default state", [], o2)
                            if ce:
                                break
                    if ce:
                        continue
                    # strippability of prefix and suffix
                    for what, rope in (("prefix", pre), ("suffix", suf)):
                        cons: List[Any] = []
                        term = rope_to_z3(rope, cons)
                        decs = [sg.n for sg in rope.segs if isinstance(sg, p2s.Dec)]
                        if decs:
                            ce = fail("number-range :: emitted number outside 0..9999", on + [z3.Or(*[z3.Or(n < 0, n >= 10000) for n in decs])], o)
                            if ce:
                                break
                        for msg, lang in ((f"not-strippable :: strip_colors does not remove the emitted {what}", R_under),
                                          (f"not-self-contained :: the emitted {what} contains an inner ESC or 'm'", shape)):
                            r = eng.check(cons + [z3.Not(z3.InRe(term, lang))])     # pure string query (superset of the emitted language)
                            if r == "unsat":
                                res["unsat"] += 1
                            elif r == "unknown":
                                res["inconclusive"] = True
                            else:
                                ce = fail(msg, on, o)       # concrete witness from the path condition, confirmed by replay
                                if ce is None:
                                    res["inconclusive"] = True
                                break
                        if ce:
                            break
            if len(res["samples"]) < 4:
                res["samples"].append({"fg_kind": fgk, "bg_kind": bgk, "paths_so_far": res["paths"]})
        if ce:
            res["counterexample"] = ce
            res["sat"] += 1
    except (p2s.Untranslatable, rx.Untranslatable, p2s.PathLimit) as e:
        res["inconclusive"] = True
        res["untranslatable"] = str(e)
    finally:
        res["queries"] = eng.queries
        res["solver_time_s"] = round(eng.solver_time, 3)
        res["functions_translated"] = eng.functions_seen
        res["wall_s"] = round(time.perf_counter() - t0, 3)
    res["queries_nontrivial"] = res["unsat"] + res["sat"]
    if res["paths"] == 0 and not res.get("counterexample") and not res["inconclusive"]:
        res["error"] = "vacuous: no path explored"
    return res


def _expected_state(kw) -> Dict[str, Any]:
    def idx(c):
        if c is None:
            return -1
        if isinstance(c, str) and c in NAMES:
            return NAMES.index(c)
        if isinstance(c, int):
            return c
        if isinstance(c, (tuple, list)):
            return 16 + 36 * c[0] + 6 * c[1] + c[2]
        return 232 + int(c[1:])
    st = {"fg": idx(kw.get("color")), "bg": idx(kw.get("bg_color"))}
    for e in EFFECTS:
        st[e] = bool(kw.get(e))
    return st


def _valid(c) -> bool:
    if c is None:
        return True
    if isinstance(c, bool):
        return False
    if isinstance(c, str):
        if c in NAMES:
            return True
        if len(c) >= 2 and c[0] == "g":
            try:
                v = int(c[1:])
            except ValueError:
                return False
            if not 0 <= v <= 23:
                return False
            # 'g0'..'g23' are the documented spellings; other spellings int() understands ('g01', 'g 1') are unspecified
            return True if str(v) == c[1:] else None
        return False
    if isinstance(c, int):
        return 0 <= c <= 255
    if isinstance(c, tuple):
        return len(c) == 3 and all(isinstance(x, int) and 0 <= x <= 5 for x in c)
    return False


def check_fmt_concrete(kw: Dict[str, Any], text: str = "xy") -> Optional[str]:
    """the whole property for one concrete formatter specification, on the real objects (used by replay and XH)"""
    import ak.color as C
    kw = dict(kw)
    make_bytes = kw.pop("make_bytes", False)
    if isinstance(kw.get("color"), list):
        kw["color"] = tuple(kw["color"])
    if isinstance(kw.get("bg_color"), list):
        kw["bg_color"] = tuple(kw["bg_color"])
    color = kw.pop("color", None)
    no_color = bool(kw.get("no_color"))
    v1, v2 = _valid(color), _valid(kw.get("bg_color"))
    if (v1 is None and v2 is not False) or (v2 is None and v1 is not False):
        return None        # unspecified spelling: nothing is claimed
    valid = bool(v1) and bool(v2)
    try:
        if make_bytes:
            out = C.ColorBytes(color, **kw)(text.encode()).decode()
        else:
            chunk = C.ColorFmt(color, **kw)(text)
            out = str(chunk)
    except ValueError:
        if valid:
            return f"valid specification {color!r}, {kw} rejected with ValueError"
        if no_color:
            return "no_color formatter raises for ignored arguments"
        return None
    except Exception as e:  # noqa
        return f"{type(e).__name__} instead of ValueError for {color!r}, {kw}"
    if no_color:
        return None if "\033" not in out and out == text else f"no_color formatter emitted {out!r}"
    if not valid:
        return f"invalid specification {color!r}, {kw} accepted: {out!r}"
    try:
        shown, final = sgr_concrete(out)
    except Malformed as e:
        return f"malformed output {out!r}: {e}"
    want = tuple(sorted(_expected_state(dict(kw, color=color)).items()))
    if [c for c, _ in shown] != list(text):
        return f"visible characters {shown!r} differ from the text"
    for c, st in shown:
        if st != want:
            return f"character {c!r} shown in state {dict(st)}, requested {dict(want)} (output {out!r})"
    if final != DEFAULT:
        return f"terminal not in default state after the chunk: {final} (output {out!r})"
    if C.CHText.strip_colors(out) != text:
        return f"strip_colors({out!r}) == {C.CHText.strip_colors(out)!r}, expected {text!r}"
    return None


def replay_q_mapping(record) -> Optional[str]:
    import ak.color as C
    h = record.get("replay_hint") or {}
    if h.get("kind") == "fmt":
        return check_fmt_concrete(h["kwargs"])
    if h.get("kind") == "strip_shape":
        w = h["witness"]
        txt = "a" + w + "b"
        got = C.CHText.strip_colors(txt)
        # a witness outside ESC..m shape: show that stripping removes something that is not a single sequence
        ok = w.startswith("\033") and w.endswith("m") and "\033" not in w[1:] and "m" not in w[1:-1]
        return None if (ok or got == txt) else f"strip_colors removes {w!r}, which is not a single ESC...m sequence"
    return "unknown replay kind"


# ---------------------------------------------------------------------------------------------------
# XH on the real objects
# ---------------------------------------------------------------------------------------------------
INT_CANDS = [-1, 0, 1, 7, 8, 15, 16, 100, 231, 232, 255, 256, 1000]
COMP_CANDS = [-1, 0, 3, 5, 6]
BAD_STRS = ["", "g", "gx", "red", "PURPLE", "g-1", "g24", "G1"]


def _spec_from(kind: int, a: int, b: int, c: int):
    if kind == 0:
        return None
    if kind == 1:
        return NAMES[a % 8]
    if kind == 2:
        return INT_CANDS[a]
    if kind == 3:
        return (COMP_CANDS[a], COMP_CANDS[b], COMP_CANDS[c])
    if kind == 4:
        return "g" + str(a)
    if kind == 5:
        return (COMP_CANDS[a], COMP_CANDS[b])
    return BAD_STRS[a % 8]


_KIND_RANGE = {0: (1, 1, 1), 1: (8, 1, 1), 2: (len(INT_CANDS), 1, 1), 3: (5, 5, 5), 4: (26, 1, 1), 5: (5, 5, 1), 6: (8, 1, 1)}


def h_real_fmt(fa: int, fb: int, fc: int, ba: int, bold: bool, crossed: bool, no_color: bool, as_bytes: bool, shard=None) -> None:
    """end-to-end through the real ColorFmt / ColorBytes objects for boundary values of every kind (enumerated)"""
    fk, bk = shard["fk"], shard["bk"]
    ra, rb, rc = _KIND_RANGE[fk]
    reject_unless(0 <= fa < ra and 0 <= fb < rb and 0 <= fc < rc and 0 <= ba < _KIND_RANGE[bk][0])
    fa, fb, fc, ba, bold, crossed, no_color, as_bytes = [realize(x) for x in (fa, fb, fc, ba, bold, crossed, no_color, as_bytes)]
    kw = {"color": _spec_from(fk, fa, fb, fc), "bg_color": _spec_from(bk, ba, 1, 2), "bold": bold, "faint": None, "underline": 0,
          "blink": False, "crossed": crossed, "no_color": no_color, "make_bytes": as_bytes}
    err = check_fmt_concrete(kw)
    if err:
        raise Violation(f"real-fmt :: {err}")


def h_effects(bits: int, ck: int, as_bytes: bool, no_color: bool, shard=None) -> None:
    """every combination of the five effects (each True / left out), text and bytes formatter, 4 color specs"""
    reject_unless(0 <= bits < 32 and 0 <= ck < 4)
    bits, ck, as_bytes, no_color = [realize(x) for x in (bits, ck, as_bytes, no_color)]
    col, bg = [(None, None), ("RED", None), (None, "g5"), (200, (1, 2, 3))][ck]
    names = ["bold", "faint", "underline", "blink", "crossed"]
    kw = {"color": col, "bg_color": bg, "no_color": no_color, "make_bytes": as_bytes}
    for i, nm in enumerate(names):
        kw[nm] = True if (bits >> i) & 1 else None
    for text in ("xy", "  ", " \t", "\xa0", " x "):
        err = check_fmt_concrete(kw, text=text)
        if err:
            raise Violation(f"real-fmt :: text {text!r}: {err}")


def h_text_roundtrip(n: int, l0: int, l1: int, l2: int, k0: int, k1: int, k2: int, shard=None) -> None:
    """strip_colors(str(x)) == x.plain_text() and per-character terminal state for CHText values of several chunks"""
    import ak.color as C
    reject_unless(0 <= n <= 3)
    specs = [dict(color=None), dict(color="RED"), dict(color=196), dict(color=(1, 2, 3), bg_color="g7"), dict(color="g23", bold=True, crossed=True),
             dict(color=None, bg_color=0, underline=True), dict(color=255, bg_color=(5, 5, 5), faint=True, blink=True)]
    n = realize(n)
    for l in [l0, l1, l2][:n]:
        reject_unless(0 <= l <= (2 if n < 3 else 1))
    for k in [k0, k1, k2][:n]:
        reject_unless(0 <= k < (len(specs) if n < 3 else 4))
    ls = [realize(x) for x in [l0, l1, l2][:n]]
    ks = [realize(x) for x in [k0, k1, k2][:n]]
    t = C.CHText()
    want = []
    letters = "mA[;0"    # visible characters that look like parts of a sequence
    for i, (l, k) in enumerate(zip(ls, ks)):
        txt = letters[i:i + l]
        kw = dict(specs[k])
        col = kw.pop("color")
        t += C.ColorFmt(col, **kw)(txt)
        st = tuple(sorted(_expected_state(dict(specs[k])).items()))
        want.extend((c, st) for c in txt)
        _ = str(t), format(t, "")          # rendered between the in-place appends: a later rendering must show the later text
        if i == len(ls) - 1 and l:
            # one more piece in the color of the last chunk (it is merged into that chunk), appended after a rendering
            t += C.ColorFmt(col, **kw)("Z")
            want.append(("Z", st))
    out = str(t)
    try:
        shown, final = sgr_concrete(out)
    except Malformed as e:
        raise Violation(f"text-malformed :: {out!r}: {e}")
    if shown != want:
        raise Violation(f"text-state :: {out!r} shows {shown}, wanted {want}")
    if final != DEFAULT:
        raise Violation(f"text-bleeds :: {out!r} leaves the terminal in {final}")
    if C.CHText.strip_colors(out) != t.plain_text():
        raise Violation(f"text-strip :: strip_colors({out!r}) == {C.CHText.strip_colors(out)!r} != {t.plain_text()!r}")
    if t.chunks and C.CHText.Chunk.strip_colors(str(t.chunks[0])) != t.chunks[0].plain_text():
        raise Violation("chunk-strip :: Chunk.strip_colors(str(chunk)) != chunk text")


def jobs(tier: str) -> List[Job]:
    t = tier == "thorough"
    base = ["none", "name:RED", "int", "tuple3", "gray"]
    pairs = [(a, b) for a in base for b in base]
    extra = [(f"name:{n}", "none") for n in NAMES] + [("none", f"name:{n}") for n in NAMES]
    extra += [(f"tuple{k}", "none") for k in (0, 1, 2, 4)] + [("none", f"tuple{k}") for k in (0, 2, 4)]
    extra += [(f"str:{s}", "none") for s in ("", "g", "gx", "red", "PURPLE", "g-1")] + [("none", "str:gx"), ("int", "str:PURPLE")]
    allp = pairs + extra
    nsh = 12
    js = []
    for i in range(nsh):
        js.append(Job(__name__, "q_mapping", kind="solver", shard={"kinds": allp[i::nsh]}, label=f"p2s+rx:mapping:{i}"))
    xk = [(2, 0), (0, 2), (3, 0), (4, 0), (1, 1), (5, 0), (6, 0), (0, 6), (0, 4), (0, 3)] if not t else [(a, b) for a in range(7) for b in range(7) if (a, b) != (3, 3)]
    for fk, bk in xk:
        js.append(Job(__name__, "h_real_fmt", shard={"fk": fk, "bk": bk}, budget_s=900 if t else 100, label=f"xh:real_fmt:{fk}{bk}", must_exhaust=True))
    js.append(Job(__name__, "h_effects", shard={}, budget_s=300 if t else 80, label="xh:effects-text-and-bytes", must_exhaust=True))
    js.append(Job(__name__, "h_text_roundtrip", shard={}, budget_s=600 if t else 80, label="xh:text_roundtrip"))
    return js
