"""C06 - history report attributes every matching commit to the right build per branch (XH-driven enumeration + solver sub-claim).

Commit-graph shape and branch-head positions are z3 choice variables; placements of build tags and matching messages
are swept natively (all subsets) inside each path, over a minimal in-memory git repository (harness-side stub with the
attribute surface ghist reads).  The oracle is written from the statement over the commit graph only (reachability).
BranchName ordering is checked symbolically (XH) for ALL non-negative release numbers.
"""
from __future__ import annotations

import itertools
from typing import Any, Dict, List, Optional, Set, Tuple

from vf.core import Job
from vf.xh import Violation, concrete, realize, reject_unless

PROPERTY_ID = "C06"
FUNCTIONS = ["ak.ghist.ReposCollection.make_reports_data", "ak.ghist.ProjectRepo.build_report_rgraph", "ak.ghist.ProjectRepo.iter_release_branches", "ak.ghist.ProjectRepo.make_buildtags_map",
             "ak.ghist.ProjectRepo.make_branch_refs_map", "ak.ghist.RepoBuildsByTagDetector.get_builds_numbers", "ak.ghist.RGraph.__init__", "ak.ghist.RGraph._read_branch",
             "ak.ghist.RGraph._mk_rcommits", "ak.ghist.RGraph._find_new_rcommits_in_build", "ak.ghist.BranchName.__init__", "ak.ghist.BranchName.cmp", "ak.ghist.BuildNumData.cmp",
             "ak.ghist.RBuild.get_printable_rcommits", "ak.utils.Comparable.__lt__"]
BOUNDS = {
    "quick": {"graphs": "16 commit-graph shapes of <= 6 commits (linear, fork+merge, diamond, two roots, parallel tagged sub-branches, merge of release into master, criss-cross)",
              "branches": "master + 1 release branch whose head is ANY commit (incl. equal to / inside / ahead of master's history); 2 release branches for 6 shapes",
              "placements": "ALL subsets of commits carrying a build tag x ALL subsets of commits whose message matches (swept natively)", "times": "commit spacing of 1 minute, 2 days or ~4.6 days (whole history inside the 30-day window) for the 2-release shards", "names": "BranchName order: ALL ints a,b,c,d >= 0 (symbolic)"},
}
BOUNDS["thorough"] = dict(BOUNDS["quick"], branches="master + 2 release branches with heads at ANY commits, all shapes")
OUTSIDE = ["commit times outside the 30-day window", "GitRepo's file-system ref reading", "several build tags on one commit", "histories beyond the shapes/sizes",
           "which of two incomparable earliest builds (parallel tagged sub-branches) lists a commit: either is accepted"]
STUBS = ["in-memory git repository: commit.hexsha/parents/message/committed_date/tree/author, repo.commit(), repo.iter_refs(), repo.remotes['origin'].refs, git_dir"]
ASSUMPTIONS = ["'builds of a branch' = tagged commits and the head that are reachable from the head and not reachable from any lower-sorted branch head"]

# shapes: parents per commit id (1-based); commit ids increase along history
SHAPES: List[Dict[int, List[int]]] = [
    {1: [], 2: [1], 3: [2], 4: [3], 5: [4]},                          # linear
    {1: [], 2: [1], 3: [1], 4: [2, 3], 5: [4]},                       # fork + merge
    {1: [], 2: [1], 3: [2], 4: [2], 5: [3, 4], 6: [5]},               # parallel sub-branches
    {1: [], 2: [], 3: [1, 2], 4: [3]},                                # two roots
    {1: [], 2: [1], 3: [1], 4: [3], 5: [2, 4]},                       # long side branch merged
    {1: [], 2: [1], 3: [2], 4: [2], 5: [4], 6: [3, 5]},               # release (3) vs master line merged at top
    {1: [], 2: [1], 3: [2], 4: [3], 5: [2], 6: [5]},                  # two diverging lines, no merge
    {1: [], 2: [1], 3: [1], 4: [2, 3], 5: [2, 3], 6: [4, 5]},         # criss-cross
    {1: [], 2: [1], 3: [2], 4: [1], 5: [4, 3], 6: [5]},               # merge of older line
    {1: [], 2: [1], 3: [2]},                                          # short linear
    {1: [], 2: [1], 3: [1], 4: [1], 5: [2, 3], 6: [5, 4]},            # three-way via two merges
    {1: [], 2: [1], 3: [2], 4: [3], 5: [3], 6: [4]},                  # fork near top, not merged
    {1: [], 2: [], 3: [1], 4: [2], 5: [3, 4]},                        # two roots, two lines, merge
    {1: [], 2: [1], 3: [2], 4: [3, 1]},                               # merge with ancestor
    {1: [], 2: [1], 3: [2, 1], 4: [3], 5: [4, 2]},                    # redundant merges
    {1: []},                                                          # single commit
    {1: [], 2: [1], 3: [1], 4: [3]},                                  # small fork, not merged (two releases can share the head of one line)
]


def classify(record) -> str:
    return (record.get("message") or "").split("::")[0].strip()[:60] or "c06"


# ---------------------------------------------------------------------------------------------------
# stub git repository
# ---------------------------------------------------------------------------------------------------
class _Author:
    name = "A. Uthor"


class _Tree:
    def __init__(self, files):
        self.files = files

    def __truediv__(self, path):
        if path not in self.files:
            raise KeyError(path)
        return self.files[path]


class _Blob:
    def __init__(self, text):
        import io
        self.data = text.encode()
        self.hexsha = "b" + format(abs(hash(text)) % (16 ** 39), "039x")

    @property
    def data_stream(self):
        import io
        return io.BytesIO(self.data)


class Commit:
    def __init__(self, cid, message, t0, files=None, step_s=60):
        self.cid = cid
        self.hexsha = format(cid, "040x")
        self.parents: List["Commit"] = []
        self.message = message
        self.committed_date = t0 + cid * step_s
        self.author = _Author()
        self.tree = _Tree({p: _Blob(t) for p, t in (files or {}).items()})

    def __repr__(self):
        return f"<c{self.cid}>"


class _Ref:
    def __init__(self, name, commit):
        self.name = name
        self.commit = commit


class _Remote:
    def __init__(self, refs):
        self.refs = refs


class StubRepo:
    def __init__(self, name, shape, messages, tags, heads, t0=1_700_000_000, files=None, step_s=60):
        """heads: {branch ('master' | 'release/1.0' ...): commit id}; tags: {commit id: tag string}"""
        self.git_dir = f"/stub/{name}"
        self.working_dir = self.git_dir
        self.commits = {cid: Commit(cid, messages.get(cid, "other"), t0, (files or {}).get(cid), step_s) for cid in shape}
        for cid, ps in shape.items():
            self.commits[cid].parents = [self.commits[p] for p in ps]
        self.by_sha = {c.hexsha: c for c in self.commits.values()}
        self.refs: Dict[str, Commit] = {}
        for br, cid in heads.items():
            self.refs[f"refs/remotes/origin/{br}"] = self.commits[cid]
        for cid, tag in tags.items():
            for tg in ([tag] if isinstance(tag, str) else tag):           # several build tags may sit on one commit
                self.refs[f"refs/tags/{tg}"] = self.commits[cid]
        self.remotes = {"origin": _Remote([_Ref(n[len("refs/remotes/"):], c) for n, c in sorted(self.refs.items()) if n.startswith("refs/remotes/origin/")])}

    def commit(self, hexsha):
        return self.by_sha[hexsha]

    def iter_refs(self, *prefixes):
        for n, c in self.refs.items():
            if any(n.startswith(p) for p in prefixes):
                yield n, c.hexsha


# ---------------------------------------------------------------------------------------------------
# oracle
# ---------------------------------------------------------------------------------------------------
def reach(shape, cid) -> Set[int]:
    seen = set()
    todo = [cid]
    while todo:
        u = todo.pop()
        if u in seen:
            continue
        seen.add(u)
        todo.extend(shape[u])
    return seen


def branch_key(name: str):
    """numeric-aware name order, master last (from the statement)"""
    if name == "master":
        return (1, ())
    parts = name.replace("/", " ").replace(".", " ").replace("-", " ").replace("_", " ").split()
    return (0, tuple((0, int(p), "") if p.isdigit() else (1, 0, p) for p in parts))


def check_report(shape, heads: Dict[str, int], tagged: Set[int], matching: Set[int], rgraph, what: str) -> None:
    order = sorted(heads, key=branch_key)
    R = {b: reach(shape, heads[b]) for b in order}
    # observed listing
    seen_branches = [rb.branch_name for rb in rgraph.branches]
    if seen_branches != [b for b in reversed(order) if b in seen_branches]:
        raise Violation(f"branch-order :: {what}: branches reported as {seen_branches}, expected (a sub-sequence of) {list(reversed(order))}")
    by_name = {rb.branch_name: rb for rb in rgraph.branches}
    for bi, b in enumerate(order):
        lower = set()
        for lb in order[:bi]:
            lower |= R[lb]
        builds_of_b = {c for c in R[b] if (c in tagged or c == heads[b]) and c not in lower}
        listed: Dict[int, List[Any]] = {}
        not_merged: List[int] = []
        rb = by_name.get(b)
        if rb is not None:
            for rbuild in rb.get_rbuilds_list():
                cids = [rc.commit.cid for rc in rbuild.get_printable_rcommits()]
                for rc in rbuild.get_printable_rcommits():
                    if rc.commit.cid not in matching:
                        raise Violation(f"lists-non-matching :: {what}: branch {b}: commit {rc.commit.cid} does not match but is listed")
                if rbuild.build_type == rbuild.FAKE_NOT_MERGED:
                    not_merged += cids
                else:
                    bc = rbuild.rcommit.commit.cid
                    label = ("not built" if rbuild.build_num.is_fake_not_built() else "build", bc)
                    if label[0] == "not built" and bc != heads[b]:
                        raise Violation(f"not-built-not-head :: {what}: branch {b}: 'not built' attached to commit {bc}, the head is {heads[b]}")
                    if label[0] == "build" and bc not in tagged:
                        raise Violation(f"build-not-tagged :: {what}: branch {b}: build at commit {bc} which carries no build tag")
                    for c in cids:
                        listed.setdefault(c, []).append(label)
        for c in sorted(matching & R[b]):
            ls = listed.get(c, [])
            if len(ls) > 1:
                raise Violation(f"listed-twice :: {what}: branch {b}: matching commit {c} is listed {len(ls)} times: {ls}")
            if c in not_merged:
                raise Violation(f"reachable-as-not-merged :: {what}: branch {b}: commit {c} is reachable from the head {heads[b]} but listed under 'not merged'")
            containing = {x for x in builds_of_b if c in reach(shape, x)}
            if containing:
                if len(ls) != 1:
                    raise Violation(f"not-listed :: {what}: branch {b}: matching commit {c} is contained in builds at {sorted(containing)} of this branch but is listed {len(ls)} times")
                at = ls[0][1]
                if at not in containing:
                    raise Violation(f"wrong-build :: {what}: branch {b}: commit {c} listed under the build at {at}, which is not a build of this branch containing it ({sorted(containing)})")
                earlier = {x for x in containing if x != at and x in reach(shape, at)}
                if earlier:
                    raise Violation(f"not-earliest :: {what}: branch {b}: commit {c} listed under the build at {at} although the earlier build(s) at {sorted(earlier)} already contain it")
            elif ls:
                at = ls[0][1]
                if c not in reach(shape, at):
                    raise Violation(f"wrong-build :: {what}: branch {b}: commit {c} listed under a build at {at} that does not contain it")
        for c in listed:
            if c not in R[b]:
                raise Violation(f"unreachable-listed :: {what}: branch {b}: commit {c} is not reachable from the head but listed under a build")
        want_nm = sorted(c for c in matching if c in lower and c not in R[b])
        if sorted(not_merged) != want_nm:
            raise Violation(f"not-merged :: {what}: branch {b}: 'not merged' lists {sorted(not_merged)}, expected exactly {want_nm}")


TIME_STEPS = [60, 2 * 86400, 4 * 86400 + 50000]      # seconds between consecutive commits: all histories stay inside the 30-day window


def run_case(shape, heads, tagged, matching, step_s=60) -> None:
    import ak.ghist as G
    messages = {c: ("BUG-1.(x) fix" if c in matching else "other BUG-10x") for c in shape}
    # the branch part of a build tag is free text (`build_<n>_<anything>_success`): spell it differently from commit to commit
    tags = {c: f"build_{100 + c}_{['release_1_0', 'release_10.250', 'hotfix-2', 'master'][c % 4]}_success" for c in tagged}
    repo = StubRepo("main", shape, messages, tags, heads, step_s=step_s)

    class Coll(G.ReposCollection):
        _REPOS_TYPES = {"main": G.ProjectRepo}
    what = f"graph {shape} heads {heads} tags {sorted(tagged)} matching {sorted(matching)} commit-spacing {step_s}s"
    try:
        coll = Coll({"main": G.ProjectRepo("main", repo, "origin")})
        data = coll.make_reports_data("BUG-1.(x)")          # the search text is a literal substring (it looks like a regular expression that would match the other messages)
    except Exception as e:  # noqa
        raise Violation(f"raises :: {what}: {type(e).__name__}: {e}")
    (_, rgraph), = data
    check_report(shape, heads, tagged, matching, rgraph, what)


def h_history(shape_i: int, h1: int, h2: int, tp: int, shard=None) -> None:
    reject_unless(shape_i == shard["shape"] and tp in shard.get("time_profiles", [0]))
    shape = SHAPES[shard["shape"]]
    n = len(shape)
    nrel = shard["releases"]
    reject_unless(1 <= h1 <= n)
    if nrel >= 2:
        reject_unless(1 <= h2 <= n)
    else:
        reject_unless(h2 == 0)
    h1, h2, tp = realize(h1), realize(h2), realize(tp)
    heads = {"master": n}
    if nrel >= 1:
        heads["release/1.9"] = h1
    if nrel >= 2:
        heads["release/1.10"] = h2
    if shard.get("master_head") is not None:
        heads["master"] = shard["master_head"]
    with concrete():
        ids = sorted(shape)
        from vf.xh import sweep_should_stop
        for tagged in itertools.chain.from_iterable(itertools.combinations(ids, k) for k in range(len(ids) + 1)):
            if sweep_should_stop():
                return
            for matching in itertools.chain.from_iterable(itertools.combinations(ids, k) for k in range(len(ids) + 1)):
                if not matching:
                    continue
                run_case(shape, heads, set(tagged), set(matching), TIME_STEPS[tp])


def replay_h_history(record):
    """re-run the failing case named in the message"""
    import ast
    import re
    msg = record.get("message") or ""
    m = re.search(r"graph (\{.*?\}) heads (\{.*?\}) tags (\[.*?\]) matching (\[.*?\]) commit-spacing (\d+)s", msg)
    if not m:
        return "cannot parse the failing case"
    shape, heads, tags, matching = [ast.literal_eval(m.group(i)) for i in (1, 2, 3, 4)]
    try:
        run_case(shape, heads, set(tags), set(matching), int(m.group(5)))
    except Violation as e:
        return str(e)
    return None


# ---------------------------------------------------------------------------------------------------
# BranchName ordering: symbolic
# ---------------------------------------------------------------------------------------------------
def h_branch_order(a: int, b: int, c: int, d: int, e: int, f: int, shard=None) -> None:
    from ak.ghist import BranchName
    reject_unless(a >= 0 and b >= 0 and c >= 0 and d >= 0 and e >= 0 and f >= 0)
    x, y, z = BranchName("x"), BranchName("y"), BranchName("z")
    x._sort_items = ["origin", "release", a, b]
    y._sort_items = ["origin", "release", c, d]
    z._sort_items = ["origin", "release", e, f]
    m = BranchName("origin/master", sort_prefix=["zzzzzzzzzzzzzz"])
    lt = (a, b) < (c, d)
    if (x < y) != lt or (y > x) != lt or (x == y) != ((a, b) == (c, d)) or (x <= y) != ((a, b) <= (c, d)):
        raise Violation(f"order :: release/{a}.{b} vs release/{c}.{d}: comparison disagrees with numeric order")
    if not (x < m) or (m < x):
        raise Violation("master-last :: master does not sort after a release branch")
    if x < y and y < z and not (x < z):
        raise Violation("transitivity :: order is not transitive")
    w = BranchName("w")
    w._sort_items = ["origin", "release", a, "rc"]
    if (x < w) is False and b >= 0 and not (w < x) and not (x == w):
        raise Violation("totality :: int vs str items are incomparable")
    if not (x < w):
        raise Violation("int-before-str :: a numeric item must sort before a string item")
    # component lists are compared lexicographically: a name whose components are a proper prefix of another name's
    # (release/10.250 and its patch branch release/10.250.1) sorts first, whatever the extra component is
    p3 = BranchName("p3")
    p3._sort_items = ["origin", "release", a, b, e]
    if not (x < p3) or (p3 < x) or (x == p3) or not (p3 > x):
        raise Violation(f"prefix-first :: release/{a}.{b} must sort before release/{a}.{b}.{e}")
    lt3 = (a, b, e) < (c, d, f)
    q3 = BranchName("q3")
    q3._sort_items = ["origin", "release", c, d, f]
    if (p3 < q3) != lt3:
        raise Violation(f"order3 :: release/{a}.{b}.{e} vs release/{c}.{d}.{f}: comparison disagrees with numeric order")
    if (p3 < y) != ((a, b) < (c, d)) or (y < p3) != ((c, d) <= (a, b)):
        raise Violation(f"order-mixed :: release/{a}.{b}.{e} vs release/{c}.{d}: comparison disagrees with lexicographic order of the components")


def h_branch_parse(a: int, b: int, shard=None) -> None:
    """_mk_sort_items on the rendered names (rendering realises the ints: enumerated)"""
    from ak.ghist import BranchName
    reject_unless(0 <= a <= 12 and 0 <= b <= 120)
    a, b = realize(a), realize(b)
    with concrete():
        for (c, d) in [(a, b + 1), (a + 1, 0), (a, b), (0, 0), (a, 9), (a, 10), (9, b), (10, b)]:
            x = BranchName(f"origin/release/{a}.{b}")
            y = BranchName(f"origin/release/{c}.{d}")
            if (x < y) != ((a, b) < (c, d)) or (x == y) != ((a, b) == (c, d)):
                raise Violation(f"parse-order :: release/{a}.{b} vs release/{c}.{d}")
        x = BranchName(f"origin/release/{a}.{b}")
        for tail in (".0", ".1", "-1", ".10", "_rc"):
            y = BranchName(f"origin/release/{a}.{b}{tail}")
            if not (x < y) or (y < x):
                raise Violation(f"parse-prefix-first :: release/{a}.{b} must sort before release/{a}.{b}{tail}")
        srt = sorted([BranchName(n) for n in (f"origin/release/{a}.{b}.1", f"origin/release/{a}.{b + 1}", f"origin/release/{a}.{b}")])
        if [s_.name for s_ in srt] != [f"origin/release/{a}.{b}", f"origin/release/{a}.{b}.1", f"origin/release/{a}.{b + 1}"]:
            raise Violation(f"parse-sort :: sorted() gives {[s_.name for s_ in srt]}")


def jobs(tier: str) -> List[Job]:
    t = tier == "thorough"
    js = []
    for si in range(len(SHAPES)):
        js.append(Job(__name__, "h_history", shard={"shape": si, "releases": 1}, budget_s=1500 if t else 110, label=f"history:shape{si}:1release", must_exhaust=True))
    for si in (range(len(SHAPES)) if t else (0, 1, 3, 6, 9, 13, 16)):
        if len(SHAPES[si]) <= (6 if t else 5):
            js.append(Job(__name__, "h_history", shard={"shape": si, "releases": 2, "time_profiles": [0, 1, 2]}, budget_s=3000 if t else 110, label=f"history:shape{si}:2releases", must_exhaust=not t))
    js.append(Job(__name__, "h_branch_order", shard={}, budget_s=300 if t else 100, label="branch-order:symbolic", must_exhaust=True))
    js.append(Job(__name__, "h_branch_parse", shard={}, budget_s=300 if t else 100, label="branch-order:parsed-names"))
    return js
