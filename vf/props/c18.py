"""C18 - objects read from a sheet match their source cells (XH-driven enumeration, stub worksheet).

Rule set, end-of-table rule, ladder flag, column permutation, leading blank rows and the offset of the table inside the
sheet are z3 choice variables; row contents are swept natively inside each path.  The oracle follows the statement:
every attribute equals the converter applied to the cell(s) found at the coordinate get_attr_origin reports, that
coordinate is where an independent reference locator expects the value to live, objects correspond one-to-one and in
order to the data rows up to the end rule, and a ladder sheet reads like its filled-in twin.
"""
from __future__ import annotations

import itertools
from typing import Any, Dict, List, Optional

from vf.core import Job
from vf.xh import Violation, concrete, realize, reject_unless

PROPERTY_ID = "C18"
FUNCTIONS = ["ak.xlsread.XlsTableReader.iter_table", "ak.xlsread.XlsTableReader._row_is_empty", "ak.xlsread.XlsTableReader._cell_is_empty", "ak.xlsread._ObjScrCellsMap.bind_titles_row",
             "ak.xlsread._ObjScrCellsMap.cells_from_row", "ak.xlsread.XlsObjReadRules.__init__", "ak.xlsread.XlsRecordAttrReadRules.__init__", "ak.xlsread.XlsObject.__init__",
             "ak.xlsread.XlsObject.construct", "ak.xlsread.XlsObject.get_attr_origin", "ak.xlsread.CellStr._make_value", "ak.xlsread.CellInt._make_value", "ak.xlsread.CellBool._make_value",
             "ak.xlsread.CellList._make_value", "ak.xlsread.CellRangeDict.val_from_cells", "ak.xlsread.CellRangeSet.val_from_cells", "ak.xlsread.iter_table", "ak.xlsread.read_table"]
BOUNDS = {
    "quick": {"rules": "5 rule sets: plain 3 attributes; optional column with default (present / missing); external attribute; ranged attribute (dict and set) between known columns; two object classes per row",
              "sheets": "every permutation of <= 5 columns incl. unknown extra and blank-titled columns; table offset 0, 1 or 23 columns (range crossing Z -> AA); 0-2 leading blank rows; "
                        "<= 3 data rows from a pool of row contents; trailing content after the end row", "modes": "both end-of-table rules; ladder or plain (ladder with 'blank all')"},
}
BOUNDS["thorough"] = dict(BOUNDS["quick"], sheets=BOUNDS["quick"]["sheets"].replace("<= 3 data rows", "<= 4 data rows"))
OUTSIDE = ["real openpyxl objects, merged cells", "rows whose key cells are empty (construct returns None by design)", "duplicate column titles", "ladder format combined with the 'blank first' end rule (contradictory readings of a blank first cell)",
           "cells whose value the declared converter rejects"]
STUBS = ["worksheet = grid of cell objects with .value, .coordinate, .parent.title and iter_rows()"]
ASSUMPTIONS = ["structure is enumerated exhaustively inside the bound"]


def classify(record) -> str:
    return (record.get("message") or "").split("::")[0].strip()[:60] or "c18"


def col_name(i: int) -> str:
    s = ""
    i += 1
    while i > 0:
        i, r = divmod(i - 1, 26)
        s = chr(65 + r) + s
    return s


class Cell:
    __slots__ = ("parent", "coordinate", "value", "row", "col")

    def __init__(self, ws, row, col, value):
        self.parent = ws
        self.row, self.col = row, col
        self.coordinate = f"{col_name(col)}{row + 1}"
        self.value = value

    def __repr__(self):
        return f"<Cell {self.coordinate}={self.value!r}>"


class Sheet:
    def __init__(self, title, grid, col_offset=0):
        self.title = title
        width = max((len(r) for r in grid), default=0) + col_offset
        self.rows = []
        for ri, r in enumerate(grid):
            vals = [None] * col_offset + list(r) + [None] * (width - col_offset - len(r))
            self.rows.append([Cell(self, ri, ci, v) for ci, v in enumerate(vals)])
        self.by_coord = {c.coordinate: c for row in self.rows for c in row}

    def iter_rows(self):
        yield from self.rows


def _empty(v) -> bool:
    return v is None or str(v).strip() == ""


# ---------------------------------------------------------------------------------------------------
# rule sets
# ---------------------------------------------------------------------------------------------------
def _rule_sets():
    import ak.xlsread as X

    class P3(X.XlsObject):
        _ATTRS = ["id", "name", "flag"]
        _NUM_ID_ATTRS = 1

    class POpt(X.XlsObject):
        _ATTRS = ["id", "name", "note"]
        _NUM_ID_ATTRS = 1

    class PExt(X.XlsObject):
        _ATTRS = ["id", "ext", "name"]
        _NUM_ID_ATTRS = 0

    class PRange(X.XlsObject):
        _ATTRS = ["id", "marks", "name"]
        _NUM_ID_ATTRS = 1

    class PSecond(X.XlsObject):
        _ATTRS = ["tags", "flag"]
        _NUM_ID_ATTRS = 0

    return {
        "plain": dict(cls=[P3], rules=[{"id": ("Id", X.cell_int), "name": ("Name", X.cell_str), "flag": ("Flag", X.cell_bool)}], known=["Id", "Name", "Flag"], extra=["Zzz"], lead=["Id", "Name"]),
        "optional": dict(cls=[POpt], rules=[{"id": ("Id", X.cell_int), "name": ("Name", X.cell_str), "note": ("Note", X.cell_list, {"default_val": lambda: ["dflt"]})}],
                         known=["Id", "Name", "Note"], optional=["Note"], extra=["Zzz"], lead=["Id", "Name"]),
        "external": dict(cls=[PExt], rules=[{"id": ("Id", X.cell_int), "ext": None, "name": ("Name", X.cell_str)}], known=["Id", "Name"], extra=["Zzz", "Qq"], lead=["Id", "Name"]),
        "range-dict": dict(cls=[PRange], rules=[{"id": ("Id", X.cell_int), "marks": ("*", X.CellRangeDict(X.cell_int)), "name": ("Name", X.cell_str)}], known=["Id", "Name"],
                           range=["m1", "m2", "m3"], rkind="dict", lead=["Id"], extra=["Zzz"],
                           orders=[["Id", "m1", "m2", "m3", "", "Zzz", "Name"], ["Id", "", "m1", "m2", "m3", "Name", "Zzz"], ["Zzz", "", "Id", "m1", "m2", "m3", "", "Name"]]),
        "range-set": dict(cls=[PRange], rules=[{"id": ("Id", X.cell_int), "marks": ("*", X.cell_range_set), "name": ("Name", X.cell_str)}], known=["Id", "Name"],
                          range=["m1", "m2", "m3"], rkind="set", lead=["Id"], extra=["Zzz"],
                          orders=[["Id", "m1", "m2", "m3", "", "Zzz", "Name"], ["Name", "m1", "m2", "m3", "", "", "Zzz", "Id"]]),
        "two-classes": dict(cls=[P3, PSecond], rules=[{"id": ("Id", X.cell_int), "name": ("Name", X.cell_str), "flag": ("Flag", X.cell_bool)},
                                                      {"tags": ("Tags", X.cell_set), "flag": ("Flag", X.cell_bool)}], known=["Id", "Name", "Flag", "Tags"], extra=[], lead=["Id", "Name"]),
    }


POOLS = {
    "Id": [1, 22, 333],
    "Name": ["ann", " bob ", None, "", 77, 0],
    "Flag": [None, "v", 1, False, "True", ""],
    "Note": [None, "a, b\nc", "x"],
    "Tags": [None, "t1,t2,,t1", " t3 "],
    "Zzz": ["junk", None],
    "Qq": [None, 5],
    "": [None, "stray"],
    "m1": [None, 1], "m2": [2, None], "m3": [None, 3],
}
POOLS_SET = {"m1": [None, "v", 1], "m2": ["v", None], "m3": [None, True]}


def _row_variants(cols: List[str], rs) -> List[List[Any]]:
    """a small covering set of row contents for the given column titles"""
    pools = []
    for c in cols:
        p = (POOLS_SET if rs.get("rkind") == "set" and c in POOLS_SET else POOLS)[c]
        if c == "Zzz" and "range" in rs:
            # next to the ranged group an unknown titled column belongs to the group: its cells must be valid group values
            p = ["v", None] if rs.get("rkind") == "set" else [None, 7]
        pools.append(p)
    n = max(len(p) for p in pools)
    out = []
    for k in range(n):
        out.append([p[(k + i) % len(p)] if c != "Id" else p[k % len(p)] for i, (c, p) in enumerate(zip(cols, pools))])
    return out


# ---------------------------------------------------------------------------------------------------
# reference
# ---------------------------------------------------------------------------------------------------
def _reference_rows(sheet: Sheet, stop_on: str):
    """-> (title row index, [data row indexes])"""
    rows = sheet.rows
    ti = None
    for i, r in enumerate(rows):
        if not all(_empty(c.value) for c in r):
            ti = i
            break
    if ti is None:
        return None, []
    data = []
    for i in range(ti + 1, len(rows)):
        r = rows[i]
        if stop_on == "blank first":
            if _empty(r[0].value):
                break
        elif all(_empty(c.value) for c in r):
            break
        data.append(i)
    return ti, data


def _check_sheet(rs, sheet: Sheet, stop_on: str, ladder: bool, filled: Optional[Sheet], what: str) -> None:
    import ak.xlsread as X
    readers = [X.XlsObjReadRules(cls, rules) for cls, rules in zip(rs["cls"], rs["rules"])]
    try:
        results = list(X.XlsTableReader(*readers).iter_table(sheet, stop_on=stop_on, ladder_format=ladder))
    except Exception as e:  # noqa
        raise Violation(f"raises :: {what}: {type(e).__name__}: {e}")
    ti, data = _reference_rows(sheet, stop_on)
    if len(results) != len(data):
        raise Violation(f"row-count :: {what}: {len(results)} result rows for {len(data)} data rows (title row {ti}, data rows {data})")
    titles = ["" if c.value is None else str(c.value).strip() for c in sheet.rows[ti]] if ti is not None else []
    col_of = {t: i for i, t in enumerate(titles) if t}
    first_titled = next((i for i, t in enumerate(titles) if t), None)
    known = set(rs["known"])
    # reference location of every value: (row, col) grid position, following ladder fill-down
    holder: Dict[Any, Any] = {}
    prev_holder_row: Dict[int, int] = {}
    for ri in data:
        cur = {ci: ri for ci in range(len(titles))}
        if ladder and first_titled is not None and prev_holder_row:
            for ci in range(first_titled, len(titles)):
                if _empty(sheet.rows[ri][ci].value):
                    cur[ci] = prev_holder_row[ci]
                else:
                    break
        prev_holder_row = cur
        holder[ri] = cur
    for objs, ri in zip(results, data):
        for obj, cls, rules in zip(objs, rs["cls"], rs["rules"]):
            if obj is None:
                if "Id" in col_of and _empty(sheet.rows[ri][col_of["Id"]].value):
                    continue        # a data row without a key (e.g. a remark in an untitled column): it counts as a row, its object is not specified
                raise Violation(f"none-object :: {what}: no object for data row {ri + 1}")
            if not isinstance(obj, cls):
                raise Violation(f"wrong-class :: {what}: row {ri + 1} gives {type(obj).__name__}")
            for attr in cls._ATTRS:
                rule = rules[attr]
                val = getattr(obj, attr)
                if rule is None:
                    if val is not None:
                        raise Violation(f"external-attr :: {what}: external attribute {attr} is {val!r}, declared default is None")
                    continue
                title, ctype = rule[0], rule[1]
                if title == "*":
                    block = []
                    started = False
                    for ci, t in enumerate(titles):
                        isr = bool(t) and t not in known
                        if isr:
                            started = True
                            block.append(ci)
                        elif started:
                            break
                    cells = [sheet.rows[holder[ri][ci]][ci] for ci in block]
                    coords = [c.coordinate for c in cells]
                    want_origin = coords[0] if len(coords) == 1 else f"{coords[0]}:{coords[-1]}"
                    got_origin = obj.get_attr_origin(attr)
                    if got_origin != want_origin:
                        raise Violation(f"range-origin :: {what}: row {ri + 1}: get_attr_origin({attr!r}) == {got_origin!r}, the bound columns are {want_origin!r}")
                    exp_val, _ = ctype.val_from_cells([titles[ci] for ci in block], cells)
                    if val != exp_val:
                        raise Violation(f"range-value :: {what}: row {ri + 1}: {attr} == {val!r}, cells {want_origin} convert to {exp_val!r}")
                    for ci, c in zip(block, cells):
                        k = titles[ci]
                        if obj.get_attr_origin(attr, k) != c.coordinate:
                            raise Violation(f"range-key-origin :: {what}: row {ri + 1}: get_attr_origin({attr!r}, {k!r}) == {obj.get_attr_origin(attr, k)!r}, expected {c.coordinate!r}")
                    continue
                if title not in col_of:
                    dflt = rule[2]["default_val"]
                    dflt = dflt() if callable(dflt) else dflt
                    if val != dflt:
                        raise Violation(f"default :: {what}: row {ri + 1}: missing optional column {title!r}: {attr} == {val!r}, declared default {dflt!r}")
                    continue
                ci = col_of[title]
                cell = sheet.rows[holder[ri][ci]][ci]
                got_origin = obj.get_attr_origin(attr)
                if got_origin != cell.coordinate:
                    raise Violation(f"origin :: {what}: row {ri + 1}: get_attr_origin({attr!r}) == {got_origin!r}, the value lives in {cell.coordinate!r}")
                at = sheet.by_coord.get(got_origin)
                exp_val = ctype.val_from_cell(at)
                if val != exp_val or type(val) is not type(exp_val):
                    raise Violation(f"value :: {what}: row {ri + 1}: {attr} == {val!r}, the cell at {got_origin} converts to {exp_val!r}")
                # the two simplest converters also against their documentation ("get string / int value from cell"), independently of the package
                if at.value is not None:
                    if ctype is X.cell_str and (not isinstance(val, str) or val.strip() != str(at.value).strip()):
                        raise Violation(f"value-str :: {what}: row {ri + 1}: {attr} == {val!r}, but the cell at {got_origin} holds {at.value!r} (string value {str(at.value)!r})")
                    if ctype is X.cell_int and isinstance(at.value, int) and val != at.value:
                        raise Violation(f"value-int :: {what}: row {ri + 1}: {attr} == {val!r}, but the cell at {got_origin} holds {at.value!r}")
    if filled is not None:
        # ladder equivalence: same attribute values as the filled-in twin read as a plain table
        plain = list(X.XlsTableReader(*readers).iter_table(filled, stop_on=stop_on, ladder_format=False))
        if len(plain) != len(results):
            raise Violation(f"ladder-rows :: {what}: ladder sheet gives {len(results)} rows, its filled-in twin {len(plain)}")
        for a, b in zip(results, plain):
            for x, y, cls in zip(a, b, rs["cls"]):
                for attr in cls._ATTRS:
                    if getattr(x, attr) != getattr(y, attr):
                        raise Violation(f"ladder-differs :: {what}: attribute {attr}: ladder {getattr(x, attr)!r}, filled-in twin {getattr(y, attr)!r}")


def _fill_down(grid, titles_row, lead_cols: List[int]):
    """filled-in twin of a ladder grid"""
    out = [list(r) for r in grid]
    first = min(lead_cols) if lead_cols else None
    width = len(grid[titles_row])
    titled = [i for i in range(width) if not _empty(grid[titles_row][i])]
    if not titled:
        return out
    first = titled[0]
    for ri in range(titles_row + 2, len(out)):
        if all(_empty(v) for v in out[ri]):
            break
        for ci in range(first, len(out[ri])):
            if _empty(out[ri][ci]):
                out[ri][ci] = out[ri - 1][ci]
            else:
                break
    return out


def h_sheet(perm: int, lead_blank: int, offset_i: int, stop_i: int, ladder: bool, missing_opt: bool, shard=None) -> None:
    sets = _rule_sets()
    rs = sets[shard["rules"]]
    cols_all = list(rs["known"]) + list(rs.get("extra", [])) + list(rs.get("range", []))
    reject_unless(0 <= lead_blank <= 2 and 0 <= offset_i <= 2 and 0 <= stop_i <= 1)
    if "optional" not in rs:
        reject_unless(not missing_opt)
    nperm = shard["nperm"]
    reject_unless(0 <= perm < nperm)
    if ladder:
        reject_unless(stop_i == 0)
    reject_unless(ladder == shard["ladder"])
    perm, lead_blank, offset_i, stop_i, ladder, missing_opt = [realize(x) for x in (perm, lead_blank, offset_i, stop_i, ladder, missing_opt)]
    with concrete():
        cols = [c for c in cols_all if not (missing_opt and c in rs.get("optional", []))]
        if "range" in rs:
            # range columns must stay contiguous; permute the block position and the known columns
            rng = rs["range"]
            others = [c for c in cols if c not in rng] + [""]
            perms = []
            for p in itertools.permutations(others):
                for pos in range(len(p) + 1):
                    perms.append(list(p[:pos]) + rng + list(p[pos:]))
        else:
            perms = [list(p) for p in itertools.permutations(cols + [""])]
        # deterministic selection of `nperm` permutations spread over the whole list
        step = max(1, len(perms) // nperm)
        explicit = rs.get("orders", [])
        order = explicit[perm] if perm < len(explicit) else perms[(perm * step) % len(perms)]
        if order[0] == "" and stop_i == 1:
            return          # 'blank first' with an untitled first column: first cell never holds data
        offset = [0, 1, 23][offset_i]
        if offset and stop_i == 1:
            return
        stop_on = ["blank all", "blank first"][stop_i]
        variants = _row_variants(order, rs)
        nrows = shard["nrows"]
        from vf.xh import sweep_should_stop
        for n in range(0, nrows + 1):
            for combo in itertools.product(range(len(variants)), repeat=n):
                if sweep_should_stop():
                    return
                data_rows = [list(variants[k]) for k in combo]
                # ids must be present (rows with an empty key are outside the claim); 'blank first' needs a non-blank first cell
                if stop_on == "blank first" and any(_empty(r[0]) for r in data_rows):
                    continue
                if ladder:
                    # make a ladder: blank a leading run in rows after the first
                    lad = [list(r) for r in data_rows]
                    for ri in range(1, len(lad)):
                        run = (ri + combo[ri]) % 3
                        firstt = next(i for i, t in enumerate(order) if t)
                        for ci in range(firstt, min(len(order), firstt + run)):
                            lad[ri][ci] = None if (ri + ci) % 2 == 0 else " "
                    grid = [[None] * len(order)] * lead_blank + [list(order)] + lad + [[None] * len(order), ["after", "end"] + [None] * (len(order) - 2)]
                    filled_grid = _fill_down(grid, lead_blank, [])
                    # rows whose key would be empty after filling are outside the claim
                    idc = order.index("Id")
                    if any(_empty(r[idc]) for r in filled_grid[lead_blank + 1: lead_blank + 1 + len(lad)]):
                        continue
                    sheet = Sheet("My Sheet", grid, offset)
                    _check_sheet(rs, sheet, stop_on, True, Sheet("My Sheet", filled_grid, offset), f"rules={shard['rules']} columns={order} offset={offset} ladder grid={lad}")
                else:
                    grid = [[None] * len(order)] * lead_blank + [list(order)] + data_rows + [[None] * len(order), ["after", "end"] + [None] * (len(order) - 2)]
                    sheet = Sheet("My Sheet", grid, offset)
                    _check_sheet(rs, sheet, stop_on, False, None, f"rules={shard['rules']} columns={order} offset={offset} stop_on={stop_on} rows={data_rows}")
                    if stop_on == "blank all" and "" in order and n == 2 and combo[0] == 0:
                        # a row that is blank in every titled column but carries a remark in an untitled one is not a blank row:
                        # the table goes on after it
                        remark = [("remark" if c == "" else None) for c in order]
                        rows3 = [data_rows[0], remark, data_rows[1]]
                        grid = [[None] * len(order)] * lead_blank + [list(order)] + rows3 + [[None] * len(order), ["after", "end"] + [None] * (len(order) - 2)]
                        _check_sheet(rs, Sheet("My Sheet", grid, offset), stop_on, False, None,
                                     f"rules={shard['rules']} columns={order} offset={offset} stop_on={stop_on} rows={rows3}")


def jobs(tier: str) -> List[Job]:
    t = tier == "thorough"
    js = []
    for name in ["plain", "optional", "external", "range-dict", "range-set", "two-classes"]:
        for lad in (False, True):
            js.append(Job(__name__, "h_sheet", shard={"rules": name, "nperm": 40 if t else 10, "nrows": 4 if t else 3, "ladder": lad}, budget_s=2400 if t else 110,
                          label=f"sheet:{name}:{'ladder' if lad else 'plain'}", must_exhaust=True))
    return js
