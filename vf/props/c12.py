"""C12 - tables are rectangular, aligned, width-bounded and account for every record (XH).

The printed no_color text is checked line by line by an independent checker written from the property statement
(positions come from the first border line, never from searching for '|', so cell values may contain border characters).
Widths, limits, record sets, header/footer are symbolic choices realised by the engine (they are rendered / used as
repetition counts and slice bounds, so they cannot stay symbolic): exhaustive enumeration inside the bound.
"""
from __future__ import annotations

from typing import Any, Dict, List, Optional

from vf.core import Job
from vf.xh import Violation, concrete, realize, reject_unless

PROPERTY_ID = "C12"
FUNCTIONS = ["ak.ppobj._PPTableImpl.gen_ch_lines", "ak.ppobj._PPTableImpl._make_table_line", "ak.ppobj.ReprStructure.detect_actual_columns_widths",
             "ak.ppobj.ReprStructure.make_record_ch_chunks_all", "ak.ppobj.ReprStructure.gen_title_lines_ch_chunks_all", "ak.ppobj.FieldType.fit_to_width",
             "ak.ppobj.FieldType.make_cell_ch_chunks", "ak.ppobj.FieldType.make_desired_cell_ch_chunks", "ak.color.CHText.resize_chunks_list",
             "ak.ppobj.PPEnumFieldType.make_desired_cell_ch_chunks", "ak.ppobj.PPEnumFieldType._make_text_cache_for_val", "ak.ppobj.PPEnumFieldType.get_cell_text_len",
             "ak.ppobj.PPEnumFieldType._make_len_cache_for_val", "ak.ppobj.ReprColumn.make_cell_ch_chunks", "ak.ppobj.ReprColumn.get_cell_text_len"]
BOUNDS = {
    "quick": {"columns": "1 column: minimum width 0..7 (0..2 for the 5-6 record sets) and maximum width ANY int >= minimum (symbolic, unbounded); 2 columns: minimum 0..3, maximum unbounded; "
                         "4 fields (int, str, enum in each modifier, str with border characters), break-by",
              "records": "8 record sets of 0..6 records (None, negative ints, empty strings, '|', '+', '-' inside values, unknown enum values)",
              "limits": "absent, (a,b) for ALL ints a,b >= 0 (symbolic, unbounded; a,b <= 3 for the 5-6 record sets), (None,b)", "header/footer": "absent, empty, short, longer than the table"},
}
BOUNDS["thorough"] = dict(BOUNDS["quick"], columns=BOUNDS["quick"]["columns"].replace("1-2 columns", "1-3 columns").replace("0..6", "0..9"))
OUTSIDE = ["multi-line titles, non-str titles", "custom FieldType classes", "more than 3 columns / 6 records", "colors (C10)"]
STUBS = []
ASSUMPTIONS = ["enum cell text per modifier as documented: 'val' = value, 'name' = name ('<???>' for unknown values), 'full' = value right-aligned to the longest enum value + space + name"]

FIELDS = ["id", "name", "st", "sym"]
MODS = [None, "full", "val", "name"]
ENUM = {10: "Active", 999: ("Error status", "name_warn"), 5: "x"}
RECORD_SETS = [
    [],
    [(7, "bob", 10, "|")],
    [(1, "al", 10, "a|b"), (-22, "", 999, "+-+"), (333, "barbara-ann", 5, " ")],
    [(1, "a", 10, "-"), (1, "a", 10, "-"), (2, "a", 4, "--"), (2, "b", None, "|"), (2, "b", 10, "|")],
    [(None, "x y", 999, "+"), (True, "...", 12345, "....")],
    [(i, "n%d" % (i % 2), 10 if i % 3 else 999, "|" * (i % 3)) for i in range(6)],
    [(1.5, "tab", 10, "q"), (0, "zero", 10, "")],
    [(1, "a", 20, "x"), (2, "b", 31337, "y"), (3, "c", 20, "z"), (4, "d", 7, "")],       # several different values that are not enum members
]
HEADERS = [None, "", "hd", "a header that is much longer than any table here"]
FOOTERS = [None, "", "ft", "a footer that is much longer than any table of this check"]


def classify(record) -> str:
    return (record.get("message") or "").split("::")[0].strip()[:60] or "c12"


def _enum_text(value, mod) -> str:
    maxlen = max(len(str(v)) for v in ENUM)
    if value is None:
        return "None"
    if value in ENUM:
        nm = ENUM[value]
        nm = nm[0] if isinstance(nm, tuple) else nm
        vl = maxlen
    else:
        nm = "<???>"
        vl = max(maxlen, len(str(value)))
    if mod == "val":
        return str(value)
    if mod == "name":
        return nm
    return str(value).rjust(vl) + " " + nm


def _cell_ok(cell: str, text: str, w: int) -> bool:
    if len(cell) != w:
        return False
    if len(text) <= w:
        for k in range(w - len(text) + 1):
            if cell == " " * k + text + " " * (w - len(text) - k):
                return True
        return False
    if w == 0:
        return cell == ""
    for d in range(1, min(3, w) + 1):
        if cell == text[:w - d] + "." * d:
            return True
    return False


def check_table(text: str, spec: Dict[str, Any]) -> Optional[str]:
    cols = spec["cols"]
    records = spec["records"]
    lines = text.split("\n")
    if "\033" in text:
        return "no_color rendering contains an escape character"
    if not lines or not lines[0] or set(lines[0]) - set("+-"):
        return f"first line is not a border line: {lines[:1]}"
    border = lines[0]
    if border[0] != "+" or border[-1] != "+":
        return f"border line {border!r} does not start/end with '+'"
    widths = [len(p) for p in border[1:-1].split("+")]
    if len(widths) != len(cols):
        return f"border {border!r} shows {len(widths)} columns, expected {len(cols)}"
    for w, c in zip(widths, cols):
        if not (c["min"] <= w <= c["max"]):
            return f"column {c['name']} has width {w} outside [{c['min']}, {c['max']}]"
    tw = len(border)
    plus = [i for i, ch in enumerate(border) if ch == "+"]
    has_footer = spec["footer"] is None or spec["footer"] != ""
    footer_text = f"Total {len(records)} records" if spec["footer"] is None else spec["footer"]
    body_end = len(lines) - (1 if has_footer else 0)
    if has_footer:
        if not _cell_ok(lines[-1], footer_text, tw) or not (lines[-1].startswith(footer_text[:max(0, tw - 3)])):
            return f"footer line {lines[-1]!r} is not the footer fitted to the table width {tw}"
    for i, ln in enumerate(lines[:body_end]):
        if len(ln) != tw:
            return f"line {i} has width {len(ln)}, table width is {tw}: {ln!r}"
    borders = [i for i, ln in enumerate(lines[:body_end]) if ln == border]
    # the 2nd border closes the title block, the last border closes the body; cells could render like a border line only if
    # every cell consisted of '-' and separators of '+', impossible because separators are '|'
    if len(borders) < 3 or borders[0] != 0 or borders[-1] != body_end - 1:
        return f"expected border lines at top, after titles and at the bottom; found at {borders}"
    i = 1
    if spec["header"]:
        h = lines[1]
        if h[0] != "|" or h[-1] != "|" or not _cell_ok(h[1:-1], spec["header"], tw - 2) or not h[1:-1].startswith(spec["header"][:max(0, tw - 5)]):
            return f"header line {h!r} is not the header fitted to width {tw - 2}"
        i = 2
    title = lines[i]

    def split_row(ln):
        for p in plus:
            if ln[p] != "|":
                return None
        return [ln[plus[k] + 1:plus[k + 1]] for k in range(len(plus) - 1)]
    cells = split_row(title)
    if cells is None:
        return f"title line {title!r}: separators not under the '+' marks of {border!r}"
    for cell, c, w in zip(cells, cols, widths):
        if not _cell_ok(cell, c["name"], w):
            return f"title cell {cell!r} of column {c['name']} (width {w})"
    if lines[i + 1] != border:
        return f"line after the titles is not a border: {lines[i + 1]!r}"
    body = lines[i + 2:body_end - 1]
    # expected table lines: records with break lines
    brk_idx = [k for k, c in enumerate(cols) if c["brk"]]
    exp_lines: List[Any] = []
    prev = None
    for r in records:
        cur = [r[cols[k]["field"]] for k in brk_idx]
        if prev is not None and prev != cur:
            exp_lines.append("BREAK")
        exp_lines.append(r)
        prev = cur
    lim = spec["limits"]
    total = len(exp_lines)
    candidates = [("all", exp_lines, 0)]
    if lim is not None and lim[0] is not None and lim[1] is not None:
        nf, nl = lim
        if total > nf + nl:
            first = exp_lines[:nf]
            last = exp_lines[total - nl:] if nl else []
            shown = sum(1 for x in first + last if x != "BREAK")
            candidates.append(("limited", first + ["SKIP"] + last, len(records) - shown))
        if total > nf + nl + 1:
            candidates = candidates[1:]       # limits definitely apply

    def row_ok(ln, exp, n_skipped):
        if exp == "BREAK":
            return ln == "|" + " " * (tw - 2) + "|"
        if exp == "SKIP":
            if ln[0] != "|" or ln[-1] != "|":
                return False
            inner = ln[1:-1]
            digits = [tok for tok in inner.replace(".", " ").split() if tok.isdigit()]
            if len(inner) >= len(f"... {n_skipped} records skipped"):
                return inner.startswith(f"... {n_skipped} records skipped") or (digits[:1] == [str(n_skipped)])
            return True     # too narrow to announce the number in full: truncated text, nothing to check
        cs = split_row(ln)
        if cs is None:
            return False
        for cell, c, w in zip(cs, cols, widths):
            v = exp[c["field"]]
            txt = _enum_text(v, c["mod"]) if c["field"] == 2 else str(v)
            if not _cell_ok(cell, txt, w):
                return False
        return True
    errs = []
    for tag, exp, nsk in candidates:
        if len(exp) != len(body):
            errs.append(f"{tag}: {len(body)} body lines, expected {len(exp)}")
            continue
        bad = [k for k, (ln, e) in enumerate(zip(body, exp)) if not row_ok(ln, e, nsk)]
        if not bad:
            return None
        k = bad[0]
        errs.append(f"{tag}: body line {k} {body[k]!r} does not show {exp[k]!r} (widths {widths}, skipped {nsk})")
    return "; ".join(errs)


def _render(spec) -> str:
    from ak.ppobj import PPEnumFieldType, PPTable
    parts = []
    for c in spec["cols"]:
        s = FIELDS[c["field"]]
        if c["mod"]:
            s += "/" + c["mod"]
        if c["brk"]:
            s += "!"
        s += f":{c['min']}-{c['max']}" if c["min"] != c["max"] or c["field"] % 2 else f":{c['min']}"
        parts.append(s)
    kw = {}
    if spec["header"] is not None:
        kw["header"] = spec["header"]
    if spec["footer"] is not None:
        kw["footer"] = spec["footer"]
    t = PPTable(spec["records"], fmt=",".join(parts), fields=list(FIELDS), fields_types={"st": PPEnumFieldType(dict(ENUM))},
                limits=spec["limits"], **kw)
    whole = t.ch_text(no_color=True).plain_text()
    again = t.ch_text(no_color=True).plain_text()
    if again != whole:
        raise Violation(f"reprint :: printing the same table twice gives different texts:\n{whole}\n---\n{again}")
    return whole


def _col(field, mn, mx, mod, brk):
    return {"field": field, "name": FIELDS[field], "min": mn, "max": mx, "mod": MODS[mod] if field == 2 else None, "brk": brk}


def h_table(f0: int, a0: int, b0: int, m0: int, k0: bool, f1: int, a1: int, b1: int, m1: int, k1: bool, f2: int, a2: int, b2: int, m2: int, k2: bool,
            lk: int, nf: int, nl: int, hd: int, ft: int, shard=None) -> None:
    n = shard["ncols"]
    W = shard["W"]
    raw = [(f0, a0, b0, m0, k0), (f1, a1, b1, m1, k1), (f2, a2, b2, m2, k2)]
    for idx, (f, a, b, m, k) in enumerate(raw):
        if idx >= n:
            reject_unless(f == 0 and a == 0 and b == 0 and m == 0 and not k)
            continue
        reject_unless(0 <= f < 4 and 0 <= a <= b <= W and 0 <= m < 4)
        if f != 2:
            reject_unless(m == 0)
        if "fields" in shard:
            reject_unless(f == shard["fields"][idx])
        if "mods" in shard and f == 2:
            reject_unless(m in shard["mods"])
        if idx > 0 and n >= 2 and shard.get("narrow_rest"):
            reject_unless((a, b) in ((0, 0), (1, 3), (2, 2)))
    reject_unless(0 <= lk <= 2 and 0 <= hd < 4 and 0 <= ft < 4)
    if lk == 0:
        reject_unless(nf == 0 and nl == 0)
    elif lk == 1:
        reject_unless(0 <= nf <= 3 and 0 <= nl <= 3)
    else:
        reject_unless(nf == 0 and 0 <= nl <= 1)
    if "hf" in shard:
        reject_unless((hd, ft) in [tuple(x) for x in shard["hf"]])
    if "lk" in shard:
        reject_unless(lk in shard["lk"])
    vals = [realize(x) for tup in raw[:n] for x in tup] + [realize(x) for x in (lk, nf, nl, hd, ft)]
    cols = [_col(*vals[5 * i:5 * i + 5]) for i in range(n)]
    lk, nf, nl, hd, ft = vals[5 * n:]
    limits = None if lk == 0 else ((nf, nl) if lk == 1 else (None, nl))
    spec = {"cols": cols, "records": RECORD_SETS[shard["rs"]], "limits": limits, "header": HEADERS[hd], "footer": FOOTERS[ft]}
    with concrete():
        try:
            text = _render(spec)
        except Violation:
            raise
        except Exception as e:  # noqa
            raise Violation(f"render-raises :: {type(e).__name__}: {e} for {_describe(spec)}")
        err = check_table(text, spec)
        if err:
            raise Violation(f"table :: {err}\nspec: {_describe(spec)}\n{text}")


def _describe(spec) -> str:
    return str({k: (v if k != "records" else f"{len(v)} records") for k, v in spec.items()})


def h_table_sym(a0: int, b0: int, a1: int, b1: int, a2: int, b2: int, nf: int, nl: int, shard=None) -> None:
    """structure concrete per shard; width bounds (min unbounded below the cap, max unbounded) and record limits are
    symbolic ints: one path covers every (min, max, limits) combination that leads to the same layout decisions"""
    from ak.ppobj import FieldType, PPEnumFieldType, PPTable
    cols_s = shard["cols"]      # [(field, mod, brk)]
    n = len(cols_s)
    A = shard.get("amax", 7)
    mins = [a0, a1, a2][:n]
    maxs = [b0, b1, b2][:n]
    for a, b in zip(mins, maxs):
        reject_unless(0 <= a <= A and a <= b)
    if "amin0" in shard:
        reject_unless(a0 >= shard["amin0"])
    for a, b in list(zip([a0, a1, a2], [b0, b1, b2]))[n:]:
        reject_unless(a == 0 and b == 0)
    lk = shard["lk"]
    if lk == 0:
        reject_unless(nf == 0 and nl == 0)
        limits = None
    elif lk == 1:
        reject_unless(nf >= 0 and nl >= 0)
        if "limmax" in shard:
            reject_unless(nf <= shard["limmax"] and nl <= shard["limmax"])
        limits = (nf, nl)
    else:
        reject_unless(nf == 0 and nl >= 0)
        limits = (None, nl)
    ftypes = {}
    used = set()
    cols = []
    parts = []
    for (f, mod, brk), a, b in zip(cols_s, mins, maxs):
        name = FIELDS[f]
        if name in used:
            raise ValueError("harness: a field may be used once per shard here")
        used.add(name)
        ft = PPEnumFieldType(dict(ENUM)) if f == 2 else FieldType()
        ft.min_width = a
        ft.max_width = b
        ftypes[name] = ft
        cols.append({"field": f, "name": name, "min": a, "max": b, "mod": MODS[mod] if f == 2 else None, "brk": brk})
        parts.append(name + ("/" + MODS[mod] if (f == 2 and mod) else "") + ("!" if brk else ""))
    hd, ft_ = shard["hf"]
    kw = {}
    if HEADERS[hd] is not None:
        kw["header"] = HEADERS[hd]
    if FOOTERS[ft_] is not None:
        kw["footer"] = FOOTERS[ft_]
    records = RECORD_SETS[shard["rs"]]
    spec = {"cols": cols, "records": records, "limits": limits, "header": HEADERS[hd], "footer": FOOTERS[ft_]}
    try:
        t = PPTable(records, fmt=",".join(parts), fields=list(FIELDS), fields_types=ftypes, limits=limits, **kw)
        text = t.ch_text(no_color=True).plain_text()
    except Exception as e:  # noqa
        raise Violation(f"render-raises :: {type(e).__name__}: {e} for {shard}")
    err = check_table(text, spec)
    if err:
        raise Violation(f"table :: {err}\nshard: {shard} mins={realize(mins)} maxs={realize(maxs)} limits={realize(limits)}\n{realize(text)}")


def h_titles(ti: int, fi: int, shard=None) -> None:
    """column titles of several lines and of different heights: every printed line is as wide as the border and the separators of
    every title / record row sit under the '+' marks"""
    from ak.ppobj import PPTable
    titles = [{"id": "id\nident"}, {"id": "i\nd\nx", "name": "the\nname"}, {"name": "n\nlong title of the name"}, {"id": "a\nb", "name": "c\nd", "lvl": "e\nf"},
              {"lvl": "level\n(int)\n-"}]
    fmts = ["id,lvl,name", "id:1-3,lvl:0-3,name:2", "id:7,lvl:1,name:1-40", "name:2,id", "id,lvl!,name:3-5;1:1"]
    reject_unless(0 <= ti < len(titles) and 0 <= fi < len(fmts))
    ti, fi = realize(ti), realize(fi)
    with concrete():
        recs = [(1, 10, "Linus"), (2, 10, "Arnold"), (3, 17, "Hermiona Granger")]
        t = PPTable(recs, fields=["id", "lvl", "name"], fields_titles=titles[ti], fmt=fmts[fi])
        lines = t.ch_text(no_color=True).plain_text().split("\n")
        what = f"titles {titles[ti]} fmt {fmts[fi]!r}"
        border = lines[0]
        if not border or set(border) - set("+-"):
            raise Violation(f"table :: {what}: the first line is not a border line: {border!r}")
        plus = [i for i, ch in enumerate(border) if ch == "+"]
        borders = [i for i, l in enumerate(lines) if l == border]
        for i, l in enumerate(lines):
            if len(l) != len(border):
                raise Violation(f"table :: {what}: line {i + 1} {l!r} is {len(l)} wide, the border {len(border)}:\n" + "\n".join(lines))
        for i in range(borders[0] + 1, borders[-1]):
            if i in borders:
                continue
            l = lines[i]
            if l.startswith("|...") or "skipped" in l:
                continue
            if any(l[p_] != "|" for p_ in plus):
                raise Violation(f"table :: {what}: line {i + 1} {l!r} has no '|' under every '+' of the border:\n" + "\n".join(lines))


def jobs(tier: str) -> List[Job]:
    t = tier == "thorough"
    js: List[Job] = []
    colkinds = [(0, 0), (1, 0), (2, 0), (2, 1), (2, 2), (2, 3), (3, 0)]
    n = 0
    for rs in range(len(RECORD_SETS)):
        for (f, mod) in colkinds:
            n += 1
            if not t and rs in (0, 6) and (f, mod) not in ((1, 0), (2, 1)):
                continue
            if not t and rs == 7 and f != 2:
                continue
            if not t and rs in (2, 3, 5) and f == 2 and (rs + mod) % 3 != 0:
                continue
            brk = (n % 2 == 0)
            hf = [(0, 0), (3, 3), (2, 1), (1, 2)][n % 4] if rs not in (0,) else (3, 3)
            lk = 1 if n % 5 else 2
            js.append(Job(__name__, "h_table_sym", shard={"cols": [(f, mod, brk)], "lk": lk, "hf": hf, "rs": rs, "amax": 9 if t else (7 if rs not in (3, 5) else 2), **({} if (t or rs not in (3, 5)) else {"limmax": 3})},
                          budget_s=900 if t else 100, per_path_timeout=30, label=f"sym:1col:f{f}m{mod}{'!' if brk else ''}:rs{rs}:lk{lk}:hf{hf[0]}{hf[1]}", must_exhaust=True))
    two = [([(0, 0, True), (1, 0, False)], 3), ([(2, 1, False), (3, 0, True)], 2), ([(1, 0, False), (2, 3, False)], 5), ([(3, 0, False), (0, 0, False)], 4),
           ([(2, 2, True), (1, 0, False)], 3), ([(1, 0, True), (0, 0, False)], 5)]
    for k, (cols, rs) in enumerate(two):
        js.append(Job(__name__, "h_table_sym", shard={"cols": cols, "lk": 1 if k % 2 == 0 else 0, "hf": (0, 0) if k % 3 else (3, 1), "rs": rs, "amax": 5 if t else (3 if rs not in (3, 5) else 1), **({} if (t or rs not in (3, 5)) else {"limmax": 2})},
                      budget_s=1500 if t else 100, per_path_timeout=30, label=f"sym:2col:{k}:rs{rs}"))
    # wide tables: the 'records skipped' announcement fits, so the announced number is checked (break lines inside the visible part)
    for k, (cols, rs) in enumerate([([(1, 0, True)], 5), ([(0, 0, True)], 3), ([(2, 3, True), (1, 0, False)], 5)]):
        js.append(Job(__name__, "h_table_sym", shard={"cols": cols, "lk": 1, "hf": (0, 0), "rs": rs, "amin0": 24, "amax": 25, "limmax": 3}, budget_s=1500 if t else 100,
                      per_path_timeout=30, label=f"sym:wide:{k}:rs{rs}"))
    js.append(Job(__name__, "h_titles", shard={}, budget_s=100, label="enum:multi-line-titles", must_exhaust=True))
    # the same enum field type in two columns of different widths (cached cell texts must not remember a width)
    for rs in (2, 4):
        js.append(Job(__name__, "h_table", shard={"ncols": 2, "W": 4, "rs": rs, "fields": [2, 2], "mods": [2, 3], "narrow_rest": True, "hf": [(0, 0)], "lk": [0]},
                      budget_s=900 if t else 100, label=f"enum:2col:same-enum-twice:rs{rs}"))
    if t:
        for k, (cols, rs) in enumerate([([(0, 0, False), (1, 0, True), (2, 1, False)], 3), ([(3, 0, False), (2, 3, True), (0, 0, False)], 5)]):
            js.append(Job(__name__, "h_table_sym", shard={"cols": cols, "lk": 1, "hf": (0, 0), "rs": rs, "amax": 3}, budget_s=1500, per_path_timeout=30, label=f"sym:3col:{k}:rs{rs}"))
        W = 6
        for rs in range(len(RECORD_SETS)):
            js.append(Job(__name__, "h_table", shard={"ncols": 1, "W": W, "rs": rs, "hf": [(0, 0), (3, 3), (2, 1)]}, budget_s=900, label=f"enum:1col:rs{rs}"))
            for fields in ([0, 1], [2, 3], [2, 2]):
                js.append(Job(__name__, "h_table", shard={"ncols": 2, "W": 4, "rs": rs, "fields": fields, "narrow_rest": True, "hf": [(0, 0), (3, 1)], "lk": [0, 1]},
                              budget_s=900, label=f"enum:2col:{''.join(map(str, fields))}:rs{rs}"))
    return js
