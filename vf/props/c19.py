"""C19 - command options are inherited exactly along the declared command graph (XH).

Purely structural property: the solver's role is constraint-driven exhaustive enumeration of all acyclic parent
declarations over N commands (with an exhaustion certificate).  argparse itself runs concretely under the tracer.
"""
from __future__ import annotations

import contextlib
import io
from typing import List

from vf.core import Job
from vf.xh import Violation, concrete, realize, reject_unless

PROPERTY_ID = "C19"
FUNCTIONS = ["ak.cli_tools.ArgParser.__init__", "ak.cli_tools.ArgParser._init_multicmd_parser", "ak.cli_tools.ArgParser.add_argument",
             "ak.cli_tools.ArgParser.get_cmd_parser", "ak.cli_tools.ArgParser.parse_args", "ak.cli_tools.ArgParser._mk_std_args",
             "ak.cli_tools.AkArgumentParser.register_dependent", "ak.cli_tools.AkArgumentParser.add_argument"]
BOUNDS = {
    "quick": {"commands": "N = 3 and N = 4 with <= 1 internal set: every parent declaration over earlier commands (2^(N(N-1)/2) graphs), every choice of internal '!' sets with at least one real command",
              "options": "two options (sharing one destination) per command parser + one on the ArgParser + the standard -v/--color/--no-color", "argv": "[cmd, --opt] for every pair, [--opt] (default command), option values equal to command / option-set names, standard options"},
    "thorough": {"commands": "N <= 5 (1024 graphs x internal-set choices, sharded by the parents of the last command)", "options": "as quick", "argv": "as quick"},
}
OUTSIDE = ["option kinds other than store_true flags", "abbreviated long options (argparse prefix matching)", "N > 5 commands"]
STUBS = ["stderr is captured (argparse prints usage on rejection)"]
ASSUMPTIONS = ["argparse (stdlib) is trusted"]


def classify(record) -> str:
    return (record.get("message") or "").split("::")[0].strip()[:60] or "c19"


NAME_SWAPS = [None, (0, 1), (0, 2), (1, 2), (0, 3), (1, 3), (2, 3)]


def _run(n: int, edges: List[List[bool]], internal: List[bool], spaces: bool, swap=None) -> None:
    """edges[j][i] (i < j): command j names command i as a parent.  `swap`: two roles exchange their names - the module
    keeps the parents of a command in a set of strings, so which parent is processed first depends on the names"""
    from ak.cli_tools import ArgParser
    names = [f"c{k}" for k in range(n)]
    if swap is not None and max(swap) < n:
        a, b = swap
        names[a], names[b] = names[b], names[a]
    cmds = []
    for j in range(n):
        ps = [names[i] for i in range(j) if edges[j][i]]
        if spaces and len(ps) > 1:
            decl = names[j] + ":" + " , ".join(reversed(ps))
        else:
            decl = names[j] + (":" + ",".join(ps) if ps else "")
        if internal[j]:
            decl = "!" + decl
        cmds.append((decl, f"help {j}") if j % 2 else (decl, (f"help {j}", f"description {j}")))
    descr = f"n={n} decl={[c[0] for c in cmds]}"
    # oracle: ancestors by transitive closure of the declaration
    anc = [set() for _ in range(n)]
    for j in range(n):
        for i in range(j):
            if edges[j][i]:
                anc[j].add(i)
                anc[j] |= anc[i]
    err = io.StringIO()
    with contextlib.redirect_stderr(err), contextlib.redirect_stdout(err):
        try:
            p = ArgParser(commands=cmds, prog="t")
        except Exception as e:  # noqa
            raise Violation(f"construct :: ArgParser({descr}) raises {type(e).__name__}: {e}")
        for k in range(n):
            p.get_cmd_parser(names[k]).add_argument(f"--o{k}", action="store_true")
            # a second option of the same parser stores into the same attribute (as --with-x / --without-x pairs do)
            p.get_cmd_parser(names[k]).add_argument(f"--alt{k}", action="store_const", const="alt", dest=f"o{k}")
        p.add_argument("--glob", action="store_true")
        real = [k for k in range(n) if not internal[k]]
        default = real[0]
        p.get_cmd_parser(names[default]).add_argument("--val")

        def parse(argv):
            try:
                return p.parse_args(list(argv))
            except SystemExit as e:
                return ("exit", e.code)
            except Exception as e:  # noqa
                raise Violation(f"parse-raises :: {descr}: parse_args({argv}) raises {type(e).__name__}: {e}")

        for j in real:
            for i in range(n):
                r = parse([names[j], f"--o{i}"])
                should = (i == j) or (i in anc[j])
                if should:
                    if isinstance(r, tuple):
                        raise Violation(f"rejects-inherited :: {descr}: command c{j} rejects --o{i} of its {'own parser' if i == j else 'ancestor'}")
                    if not getattr(r, f"o{i}", False) or r.command != names[j]:
                        raise Violation(f"namespace :: {descr}: [c{j} --o{i}] parsed to {r}")
                    for k in range(n):
                        if k != i and getattr(r, f"o{k}", False):
                            raise Violation(f"namespace :: {descr}: [c{j} --o{i}] also sets o{k}")
                else:
                    if not isinstance(r, tuple):
                        raise Violation(f"accepts-foreign :: {descr}: command c{j} accepts --o{i} though c{i} is not an ancestor")
                    if r[1] != 2:
                        raise Violation(f"exit-code :: {descr}: rejection exits with {r[1]}")
            for i in range(n):
                r = parse([names[j], f"--alt{i}"])
                should = (i == j) or (i in anc[j])
                if should != (not isinstance(r, tuple)):
                    raise Violation(f"{'rejects-inherited' if should else 'accepts-foreign'} :: {descr}: command c{j} {'rejects' if should else 'accepts'} --alt{i} "
                                    f"(second option of c{i}'s parser, same destination as --o{i})")
                if should and (getattr(r, f"o{i}", None) != "alt" or r.command != names[j]):
                    raise Violation(f"namespace :: {descr}: [c{j} --alt{i}] parsed to {r}")
            r = parse([names[j], "--glob", "-v", "--color=always"])
            if isinstance(r, tuple) or not r.glob or r.verbose != 1 or r.color != "always":
                raise Violation(f"std-options :: {descr}: [c{j} --glob -v --color=always] gives {r}")
            r = parse([names[j], "--no-color"])
            if isinstance(r, tuple) or r.color is not False:
                raise Violation(f"std-options :: {descr}: [c{j} --no-color] gives {r}")
            # the standard color option in all its spellings (value attached, value as the next argument, no value)
            for cv in ("auto", "always", "never", "yes", "no", "1", "0"):
                for argv in ([names[j], f"--color={cv}"], [names[j], "--color", cv], [names[j], "--color", cv, f"--o{j}"]):
                    r = parse(argv)
                    if isinstance(r, tuple) or r.command != names[j] or (len(argv) == 4 and not getattr(r, f"o{j}", False)):
                        raise Violation(f"std-options :: {descr}: {argv} gives {r}: the standard color option must be accepted by command c{j}")
            r = parse([names[j], "--color"])
            if isinstance(r, tuple) or r.command != names[j]:
                raise Violation(f"std-options :: {descr}: [c{j} --color] gives {r}")
        for k in range(n):
            if internal[k]:
                r = parse([names[k]])
                # an internal option set is not a command: its name is parsed as an argument of the default command
                if not isinstance(r, tuple):
                    raise Violation(f"internal-is-command :: {descr}: internal set c{k} is accepted as a command: {r}")
        # default command
        for i in range(n):
            r = parse([f"--o{i}"])
            should = (i == default) or (i in anc[default])
            if should != (not isinstance(r, tuple)):
                raise Violation(f"default-command :: {descr}: [--o{i}] {'rejected' if should else 'accepted'} (default command c{default})")
            if should and r.command != names[default]:
                raise Violation(f"default-command :: {descr}: [--o{i}] parsed as command {r.command}")
        r = parse([])
        if isinstance(r, tuple) or r.command != names[default]:
            raise Violation(f"default-command :: {descr}: [] gives {r}")
        # only the FIRST argument decides: a later token that happens to be a command (or option set) name is a value
        for k in range(n):
            for argv in (["--val", names[k]], [f"--o{default}", "--val", names[k]], [f"--val={names[k]}", "-v"]):
                r = parse(argv)
                if isinstance(r, tuple) or r.command != names[default] or r.val != names[k]:
                    raise Violation(f"default-command :: {descr}: {argv} must be parsed as the default command c{default} with val={names[k]!r}, got {r}")


def h_graph(e10: bool, e20: bool, e21: bool, e30: bool, e31: bool, e32: bool, e40: bool, e41: bool, e42: bool, e43: bool,
            i0: bool, i1: bool, i2: bool, i3: bool, i4: bool, spaces: bool, swap_i: int, shard=None) -> None:
    n = shard["n"]
    flat = {(1, 0): e10, (2, 0): e20, (2, 1): e21, (3, 0): e30, (3, 1): e31, (3, 2): e32, (4, 0): e40, (4, 1): e41, (4, 2): e42, (4, 3): e43}
    internal = [i0, i1, i2, i3, i4][:n]
    # unused variables are pinned so that they do not multiply paths
    for (j, i), v in flat.items():
        if j >= n:
            reject_unless(not v)
    for k, v in enumerate([i0, i1, i2, i3, i4]):
        if k >= n:
            reject_unless(not v)
    if "last_parents" in shard:
        for i in range(n - 1):
            reject_unless(flat[(n - 1, i)] == shard["last_parents"][i])
    internal = [realize(x) for x in internal]
    reject_unless(not all(internal))
    reject_unless(sum(1 for x in internal if x) <= shard.get("max_internal", n))
    edges = [[realize(flat[(j, i)]) for i in range(j)] for j in range(n)]
    spaces = realize(spaces)
    reject_unless(spaces == shard.get("spaces", False))
    reject_unless(swap_i == 0)
    with concrete():
        for swap in NAME_SWAPS:
            if swap is None or max(swap) < n:
                _run(n, edges, internal, spaces, swap)


def jobs(tier: str) -> List[Job]:
    t = tier == "thorough"
    js = [Job(__name__, "h_graph", shard={"n": 2}, budget_s=60, label="graphs:n2", must_exhaust=True),
          Job(__name__, "h_graph", shard={"n": 3}, budget_s=150, label="graphs:n3", must_exhaust=True),
          Job(__name__, "h_graph", shard={"n": 3, "spaces": True}, budget_s=150, label="graphs:n3:spaced-decl", must_exhaust=True)]
    import itertools
    for lp in itertools.product([False, True], repeat=3):
        js.append(Job(__name__, "h_graph", shard={"n": 4, "last_parents": list(lp), "max_internal": 4 if t else 1}, budget_s=900 if t else 150,
                      label="graphs:n4:last=" + "".join("1" if x else "0" for x in lp), must_exhaust=True))
    if t:
        for lp in itertools.product([False, True], repeat=4):
            js.append(Job(__name__, "h_graph", shard={"n": 5, "last_parents": list(lp), "max_internal": 1}, budget_s=1500,
                          label="graphs:n5:last=" + "".join("1" if x else "0" for x in lp)))
    return js
