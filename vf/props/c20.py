"""C20 - short uuid strings are a bijective encoding of UUIDs.

P2S (AST -> z3, mathematical ints): the real source of _int_to_str/_str_to_int/uuid_*_short_str is interpreted
symbolically; all 2**128 values and all 22-character strings (arbitrary code points) are covered by a handful of
paths, each discharged by z3.  XH (CrossHair) covers the str/canonical-form front end of uuid_from_str.
"""
from __future__ import annotations

import time
import uuid as _uuid
from typing import Any, Dict, List

import z3

from vf import p2s
from vf.core import Job

PROPERTY_ID = "C20"
FUNCTIONS = ["ak.short_uuid._int_to_str", "ak.short_uuid._str_to_int", "ak.short_uuid.uuid_to_short_str",
             "ak.short_uuid.uuid_from_short_str", "ak.short_uuid.uuid_from_str"]
BOUNDS = {
    "quick": {"n": "all ints 0 <= n < 2**128 (symbolic, unbounded-int arithmetic)", "strings": "all strings of length 22 over all code points 0..0x10FFFF (symbolic cells); lengths 0..40 != 22 symbolic cells",
              "loop": "while-loop of _int_to_str unrolled until z3 proves the continuation infeasible (22 iterations for the 57-letter alphabet), hard cap 200"},
}
BOUNDS["thorough"] = dict(BOUNDS["quick"], strings=BOUNDS["quick"]["strings"].replace("0..40", "0..120"))
OUTSIDE = ["non-str arguments other than a fixed sample (None, int, bytes, list, UUID)", "uuid.UUID itself (stubbed by its documented contract)"]
STUBS = ["uuid.UUID(int=v): raises ValueError unless 0 <= v < 2**128, else an object whose .int is v (validated concretely at both boundaries on every run)",
         "uuid.UUID(hex=s) for a 22-character s: always ValueError (hex form needs 32 hex digits after removing 'urn:', 'uuid:', braces, hyphens; validated concretely)"]
ASSUMPTIONS = ["z3 Int arithmetic models Python int exactly (no wrap-around in the source language)",
               "_ALPHABET/_INDEX_ALPHABET are read from the imported module object; the kernels touch characters only through these tables"]


def classify(record) -> str:
    m = (record.get("message") or "")
    return m.split("::")[0].strip()[:80] or "c20"


# -----------------------------------------------------------------------------------------------------
def _stub_UUID(eng: p2s.Engine, hex=None, bytes=None, bytes_le=None, fields=None, int=None, version=None, **kw):
    if int is not None and hex is None:
        v = p2s.to_z3_int(int)
        if not eng.branch(z3.And(v >= 0, v < (1 << 128))):
            raise p2s.PyRaise(ValueError)
        return p2s.SObj("UUID", int=v)
    if hex is not None:
        if isinstance(hex, (str, p2s.SStr)):
            s = p2s.SStr.of(hex)
            if not s.has_dec() and len(s.cells()) < 32:
                raise p2s.PyRaise(ValueError)   # contract: fewer than 32 characters can never hold 32 hex digits
        raise p2s.Untranslatable("uuid.UUID(hex) outside the stub's contract")
    raise p2s.Untranslatable("uuid.UUID called in an unsupported way")


def _validate_stub() -> List[str]:
    errs = []
    for v, ok in ((0, True), ((1 << 128) - 1, True), (1 << 128, False), (-1, False)):
        try:
            r = _uuid.UUID(int=v)
            good = ok and r.int == v
        except ValueError:
            good = not ok
        if not good:
            errs.append(f"uuid.UUID(int={v}) does not follow the stub contract")
    for s in ["2" * 22, "urn:uuid:{abcdefabcdef}", "0123456789abcdef012345", "-" * 22, "{" + "a" * 20 + "}"]:
        try:
            _uuid.UUID(s)
            errs.append(f"uuid.UUID({s!r}) accepted a string shorter than 32 characters")
        except ValueError:
            pass
    return errs


def _engine():
    return p2s.Engine(stubs={_uuid.UUID: _stub_UUID}, max_paths=4000, loop_bound=200, timeout_ms=60000)


def _model_int(m, t):
    return m.eval(t, model_completion=True).as_long()


def _model_str(m, s: p2s.SStr) -> str:
    out = []
    for c in s.cells():
        out.append(c if isinstance(c, str) else chr(_model_int(m, c.code)))
    return "".join(out)


def _vectors(mod) -> List[str]:
    """validate the translator against the real functions on the repo's test vector + boundary values (model evaluation)"""
    errs = []
    eng = _engine()
    vals = [0, 1, 56, 57, 57 ** 21, 57 ** 21 - 1, (1 << 128) - 1, (1 << 127), 0xde22bbe043bf448d9b832ee57e663285, 3 ** 80]
    for v in vals:
        outs = eng.explore(mod.uuid_to_short_str, (p2s.SObj("UUID", int=z3.IntVal(v)),))
        if len(outs) != 1 or outs[0].kind != "return":
            errs.append(f"translator: uuid_to_short_str({v}) gave {outs}")
            continue
        chk = eng.check(outs[0].pc)
        if chk != "sat":
            errs.append(f"translator: pc of concrete run not sat for {v}")
            continue
        got = _model_str(eng.last_model, p2s.SStr.of(outs[0].value))
        try:
            real = mod.uuid_to_short_str(_uuid.UUID(int=v))
        except Exception as e:  # noqa
            real = f"<{type(e).__name__}>"
        if got != real:
            errs.append(f"translator disagrees with real uuid_to_short_str on {v}: {got!r} vs {real!r}")
    strs = ["hfDoPxAatD8tiFaSAL3oXh", "2" * 22, "z" * 22, "2" * 21 + "3", "zzzzzzzzzzzzzzzzzzzzz9"]
    for s in strs:
        outs = eng.explore(mod.uuid_from_short_str, (p2s.SStr((s,)),))
        if len(outs) != 1:
            errs.append(f"translator: uuid_from_short_str({s!r}) gave {len(outs)} paths")
            continue
        o = outs[0]
        try:
            real: Any = mod.uuid_from_short_str(s).int
        except Exception as e:  # noqa
            real = type(e).__name__
        if o.kind == "return":
            eng.check(o.pc)
            got: Any = _model_int(eng.last_model, o.value.attrs["int"])
        else:
            got = o.exc.__name__
        if got != real:
            errs.append(f"translator disagrees with real uuid_from_short_str on {s!r}: {got!r} vs {real!r}")
    return errs


def q_solver(shard=None, max_other_len=40) -> Dict[str, Any]:
    import ak.short_uuid as mod
    res: Dict[str, Any] = {"queries": 0, "unsat": 0, "sat": 0, "inconclusive": False, "samples": [], "notes": []}
    t0 = time.perf_counter()
    errs = _validate_stub()
    alphabet = list(mod._ALPHABET)
    if len(set(alphabet)) != len(alphabet) or any(len(c) != 1 for c in alphabet):
        return dict(res, counterexample={"message": "alphabet-not-distinct :: _ALPHABET has repeated or multi-character entries",
                                         "args": {"alphabet": "".join(alphabet)}, "replay_hint": {"kind": "alphabet"}})
    res["alphabet_size"] = len(alphabet)
    eng = _engine()
    try:
        errs += _vectors(mod)
        if errs:
            res["error"] = "translator validation failed: " + "; ".join(errs)
            return res
        n = z3.Int("n")
        dom = [n >= 0, n < (1 << 128)]
        # ---- A. encode: all paths of uuid_to_short_str ------------------------------------------------
        enc = eng.explore(mod.uuid_to_short_str, (p2s.SObj("UUID", int=n),), assumptions=dom)
        res["paths_encode"] = len(enc)
        ce = None
        for o in enc:
            if o.kind != "return":
                r = eng.check(o.pc)
                if r == "sat":
                    v = _model_int(eng.last_model, n)
                    ce = {"message": f"encode-raises :: uuid_to_short_str raises {o.exc.__name__}", "args": {"n": str(v)},
                          "replay_hint": {"kind": "roundtrip", "n": str(v)}}
                    break
                continue
            s = p2s.SStr.of(o.value)
            cells = s.cells()
            # A1: exactly 22 characters  (the property's number, not the module constant)
            if len(cells) != 22:
                eng.check(o.pc)
                v = _model_int(eng.last_model, n)
                ce = {"message": f"length :: encoding has {len(cells)} characters", "args": {"n": str(v)}, "replay_hint": {"kind": "roundtrip", "n": str(v)}}
                break
            # A2: every character is a letter of the alphabet
            generic = []
            bad_static = None
            for c in cells:
                if isinstance(c, str):
                    if c not in alphabet:
                        bad_static = c
                elif c.lookup is not None:
                    foreign = [k for k, t in enumerate(c.lookup[1]) if t not in alphabet]
                    if foreign:
                        generic.append(z3.Or(*[c.lookup[0] == k for k in foreign]))
                else:
                    generic.append(z3.Not(z3.Or(*[c.code == ord(a) for a in alphabet])))
            if bad_static is not None:
                r = eng.check(o.pc)
            elif generic:
                r = eng.check(o.pc + [z3.Or(*generic)])
            else:
                r = "unsat"   # decided structurally: every cell is a table entry of the alphabet with an in-range index
            if r == "sat":
                v = _model_int(eng.last_model, n)
                ce = {"message": "alphabet :: encoding contains a character outside the alphabet", "args": {"n": str(v)}, "replay_hint": {"kind": "roundtrip", "n": str(v)}}
                break
            if r == "unknown":
                res["inconclusive"] = True
            else:
                res["unsat"] += 1
            # A3: round trip: decode(encode(n)) == n on every decode path
            dec = eng.explore(mod.uuid_from_short_str, (s,), assumptions=o.pc)
            for d in dec:
                if d.kind == "raise":
                    r = eng.check(d.pc)
                    if r == "sat":
                        v = _model_int(eng.last_model, n)
                        ce = {"message": f"roundtrip-raises :: decode(encode(n)) raises {d.exc.__name__}", "args": {"n": str(v)}, "replay_hint": {"kind": "roundtrip", "n": str(v)}}
                        break
                    continue
                back = d.value.attrs["int"] if isinstance(d.value, p2s.SObj) else None
                if back is None:
                    raise p2s.Untranslatable("decode did not return a UUID stub object")
                r = eng.check(d.pc + [back != n])
                if r == "sat":
                    v = _model_int(eng.last_model, n)
                    ce = {"message": "roundtrip :: decode(encode(n)) != n", "args": {"n": str(v)}, "replay_hint": {"kind": "roundtrip", "n": str(v)}}
                    break
                if r == "unknown":
                    res["inconclusive"] = True
                else:
                    res["unsat"] += 1
                # A4: uuid_from_str accepts the short form
                # (explored once per encode path, same assertion)
            if ce:
                break
            dec2 = eng.explore(mod.uuid_from_str, (s,), assumptions=o.pc)
            for d in dec2:
                bad = [z3.BoolVal(True)] if d.kind == "raise" else [d.value.attrs["int"] != n]
                r = eng.check(d.pc + bad)
                if r == "sat":
                    v = _model_int(eng.last_model, n)
                    ce = {"message": "from_str-short :: uuid_from_str(short form) does not return the uuid", "args": {"n": str(v)}, "replay_hint": {"kind": "from_str_short", "n": str(v)}}
                    break
                if r == "unknown":
                    res["inconclusive"] = True
                else:
                    res["unsat"] += 1
            if ce:
                break
        if len(res["samples"]) < 3:
            res["samples"].append({"query": "for all 0<=n<2**128: len(enc(n))==22, enc(n) in alphabet*, dec(enc(n))==n, from_str(enc(n))==n", "encode_paths": len(enc)})
        if ce:
            res["counterexample"] = ce
            return res
        # reachability twins: every encode path is satisfiable (no vacuous pass)
        reach = sum(1 for o in enc if eng.check(o.pc) == "sat")
        res["reachable_encode_paths"] = reach
        if reach == 0:
            res["error"] = "vacuous: no encode path is satisfiable"
            return res

        # ---- B. decode ------------------------------------------------------------------------------
        # B1: all 22-character strings over the alphabet (digit indices symbolic): ValueError or canonical
        # B2: all 22-character strings over all code points with at least one foreign character: ValueError
        digs = [z3.Int(f"d{i}") for i in range(22)]
        s_alpha = p2s.SStr(tuple(p2s.Cell(lookup=(d, tuple(alphabet))) for d in digs))
        dom_alpha = [z3.And(d >= 0, d < len(alphabet)) for d in digs]
        codes = [z3.Int(f"c{i}") for i in range(22)]
        s_any = p2s.SStr(tuple(p2s.Cell(c) for c in codes))
        dom_any = [z3.And(c >= 0, c <= 0x10FFFF) for c in codes]
        dom_any.append(z3.Or(*[z3.And(*[c != ord(a) for a in alphabet]) for c in codes]))
        for entry, label in ((mod.uuid_from_short_str, "from_short"), (mod.uuid_from_str, "from_str")):
          for s, sdom, sub in ((s_alpha, dom_alpha, "alphabet"), (s_any, dom_any, "foreign")):
            dec = eng.explore(entry, (s,), assumptions=sdom)
            res[f"paths_decode_{label}_{sub}"] = len(dec)
            n_ok = 0
            for d in dec:
                if d.kind == "raise":
                    if issubclass(d.exc, ValueError):
                        continue
                    r = eng.check(d.pc)
                    if r == "sat":
                        txt = _model_str(eng.last_model, s)
                        ce = {"message": f"reject-{d.exc.__name__} :: invalid 22-character string raises {d.exc.__name__} instead of ValueError",
                              "args": {"s": txt, "entry": label}, "replay_hint": {"kind": "reject", "s": txt, "entry": label}}
                        break
                    continue
                n_ok += 1
                v = d.value.attrs["int"]
                # accepted => the string is the encoding of the returned uuid (so nothing but encodings is accepted,
                # in particular nothing denoting 2**128 or more and nothing with a foreign character)
                back = eng.explore(mod.uuid_to_short_str, (p2s.SObj("UUID", int=v),), assumptions=d.pc)
                for b in back:
                    if b.kind == "raise":
                        bad = [z3.BoolVal(True)]
                    else:
                        eqr = eng.str_eq(p2s.SStr.of(b.value), s)
                        bad = [z3.BoolVal(True)] if eqr is False else ([z3.BoolVal(False)] if eqr is True else [z3.Not(eqr)])
                    r = eng.check(b.pc + bad)
                    if r == "sat":
                        txt = _model_str(eng.last_model, s)
                        ce = {"message": "accepts-non-encoding :: a 22-character string that is not the encoding of any uuid is accepted",
                              "args": {"s": txt, "entry": label}, "replay_hint": {"kind": "noncanonical", "s": txt, "entry": label}}
                        break
                    if r == "unknown":
                        res["inconclusive"] = True
                    else:
                        res["unsat"] += 1
                if ce:
                    break
            if ce:
                break
            if n_ok == 0 and sub == "alphabet":
                res["error"] = f"vacuous: {label} accepts no 22-character string"
                return res
          if ce:
            break
        res["samples"].append({"query": "for all 22-char strings s (any code points): decode(s) raises ValueError, or returns u with encode(u)==s",
                               "paths": res.get("paths_decode_from_short_alphabet")})
        if ce:
            res["counterexample"] = ce
            return res
        # ---- C. other lengths: always ValueError -----------------------------------------------------
        for L in [l for l in range(0, max_other_len + 1) if l != 22]:
            cs = [z3.Int(f"d{i}") for i in range(L)]
            s2 = p2s.SStr(tuple(p2s.Cell(c) for c in cs))
            for entry, label in ((mod.uuid_from_short_str, "from_short"),) + (((mod.uuid_from_str, "from_str"),) if L < 32 else ()):
                outs = eng.explore(entry, (s2,), assumptions=[z3.And(c >= 0, c <= 0x10FFFF) for c in cs])
                for d in outs:
                    if d.kind == "raise" and issubclass(d.exc, ValueError):
                        continue
                    r = eng.check(d.pc)
                    if r == "sat":
                        txt = _model_str(eng.last_model, s2)
                        what = d.exc.__name__ if d.kind == "raise" else "a value"
                        ce = {"message": f"length-{what} :: string of length {L} gives {what} instead of ValueError",
                              "args": {"s": txt, "entry": label}, "replay_hint": {"kind": "reject", "s": txt, "entry": label}}
                        break
                if ce:
                    break
            if ce:
                break
        res["samples"].append({"query": f"for all strings of length L != 22, L <= {max_other_len}: ValueError"})
        if ce:
            res["counterexample"] = ce
    except p2s.Untranslatable as e:
        res["inconclusive"] = True
        res["untranslatable"] = str(e)
    except p2s.PathLimit as e:
        res["inconclusive"] = True
        res["untranslatable"] = str(e)
    finally:
        res["queries"] = eng.queries
        res["solver_time_s"] = round(eng.solver_time, 3)
        res["functions_translated"] = eng.functions_seen
        res["wall_s"] = round(time.perf_counter() - t0, 3)
    res["queries_nontrivial"] = res["unsat"] + res["sat"]
    return res


def replay_q_solver(record) -> str | None:
    import ak.short_uuid as mod
    h = record.get("replay_hint") or {}
    kind = h.get("kind")
    if kind == "alphabet":
        a = list(mod._ALPHABET)
        return None if len(set(a)) == len(a) else "alphabet has duplicates"
    if kind in ("roundtrip", "from_str_short"):
        n = int(h["n"])
        u = _uuid.UUID(int=n)
        try:
            s = mod.uuid_to_short_str(u)
            if len(s) != 22:
                return f"len(uuid_to_short_str({u})) == {len(s)}"
            if any(c not in mod._ALPHABET for c in s):
                return f"uuid_to_short_str({u}) == {s!r} has a foreign character"
            back = mod.uuid_from_short_str(s) if kind == "roundtrip" else mod.uuid_from_str(s)
        except Exception as e:  # noqa
            return f"round trip of {u} raises {type(e).__name__}: {e}"
        return None if back == u else f"round trip of {u} gives {back} (via {s!r})"
    if kind in ("reject", "noncanonical"):
        s = h["s"]
        fn = mod.uuid_from_short_str if h.get("entry") == "from_short" else mod.uuid_from_str
        try:
            u = fn(s)
        except ValueError:
            return None
        except Exception as e:  # noqa
            return f"{fn.__name__}({s!r}) raises {type(e).__name__} instead of ValueError"
        try:
            if mod.uuid_to_short_str(u) == s:
                return None
        except Exception:  # noqa
            pass
        return f"{fn.__name__}({s!r}) accepted a string that is not the encoding of any uuid (gives {u})"
    return "unknown replay kind"


# -----------------------------------------------------------------------------------------------------
# XH part: real functions under CrossHair
# -----------------------------------------------------------------------------------------------------
def h_from_str_canonical(hi: int, lo: int, upper: bool, braces: bool) -> None:
    """uuid_from_str accepts the canonical (hex) form of every uuid (symbolic 2 x 64 bit)"""
    from vf.xh import Violation, reject_unless
    import ak.short_uuid as mod
    reject_unless(0 <= hi < (1 << 64) and 0 <= lo < (1 << 64))
    n = (hi << 64) | lo
    u = _uuid.UUID(int=n)
    text = str(u)
    if upper:
        text = text.upper()
    if braces:
        text = "{" + text + "}"
    r = mod.uuid_from_str(text)
    if r != u or r.int != n:
        raise Violation(f"from_str-canonical :: uuid_from_str({text!r}) == {r}")


def h_short_bad_char(pos: int, ch: str) -> None:
    """a valid encoding with one character replaced by an arbitrary one: ValueError or a consistent decode"""
    from vf.xh import Violation, reject_unless
    import ak.short_uuid as mod
    reject_unless(0 <= pos < 22 and len(ch) == 1)
    base = "hfDoPxAatD8tiFaSAL3oX2"
    s = base[:pos] + ch + base[pos + 1:]
    try:
        u = mod.uuid_from_short_str(s)
    except ValueError:
        return
    if mod.uuid_to_short_str(u) != s:
        raise Violation(f"accepts-non-encoding :: {s!r} accepted but encodes back differently")


def h_boundary(top: int, fill_i: int) -> None:
    """22-character strings over the alphabet through the REAL functions: `fill`*20 + x + y with fill from {lowest digit, highest
    digit, 'a', 'F'} (so: values around 2**128, and strings made only of characters that are also hex digits); the most
    significant digit is a choice variable, the next one is swept natively.  Both entry points: ValueError, or a uuid that
    encodes back to the same string - and uuid_from_str accepts exactly what uuid_from_short_str accepts, with the same result"""
    from vf.xh import Violation, concrete, realize, reject_unless
    import ak.short_uuid as mod
    alphabet = list(mod._ALPHABET)
    fills = [alphabet[0], alphabet[-1], "a", "F"]
    reject_unless(0 <= top < len(alphabet) and 0 <= fill_i < len(fills))
    top, fill_i = realize(top), realize(fill_i)
    with concrete():
        for nxt in range(len(alphabet)):
            s = fills[fill_i] * 20 + alphabet[nxt] + alphabet[top]
            res = []
            for fn in (mod.uuid_from_short_str, mod.uuid_from_str):
                try:
                    u = fn(s)
                except ValueError:
                    res.append(None)
                    continue
                except Exception as e:  # noqa
                    raise Violation(f"reject-{type(e).__name__} :: {fn.__name__}({s!r}) raises {type(e).__name__} instead of ValueError")
                if mod.uuid_to_short_str(u) != s:
                    raise Violation(f"accepts-non-encoding :: {fn.__name__}({s!r}) accepted but encodes back differently")
                res.append(u)
            if res[0] != res[1]:
                raise Violation(f"entry-points-differ :: uuid_from_short_str({s!r}) gives {res[0]!r} but uuid_from_str gives {res[1]!r}")
            if nxt % 8 == 0:
                # one character more is a different length, whatever the character is (incl. what '$' or strip() would forgive)
                for s2 in (s + "\n", s + " ", "\n" + s, s + "\r\n", s + alphabet[0], s[:-1], s + "\x00"):
                    for fn in (mod.uuid_from_short_str, mod.uuid_from_str):
                        try:
                            u = fn(s2)
                        except ValueError:
                            continue
                        except Exception as e:  # noqa
                            raise Violation(f"reject-{type(e).__name__} :: {fn.__name__}({s2!r}) raises {type(e).__name__} instead of ValueError")
                        raise Violation(f"accepts-wrong-length :: {fn.__name__}({s2!r}) ({len(s2)} characters) is accepted as {u}")


def _ref_encode(n: int, alphabet) -> str:
    """reference: 22 base-len(alphabet) digits, least significant first"""
    out = []
    for _ in range(22):
        n, d = divmod(n, len(alphabet))
        out.append(alphabet[d])
    return "".join(out)


def h_history(k1: int, k2: int) -> None:
    """the result of an encoding / decoding does not depend on the calls made before it in the same process: a number of k1
    base-57 digits is encoded (and decoded back), then a number of k2 digits (k1, k2 = 0..22 choice variables: every ordered
    pair of digit counts, longer-then-shorter included; leading digit and filler digits swept natively); every result must be
    the reference encoding (computed by the harness) and decode to the number, and the first one must still do so afterwards"""
    from vf.xh import Violation, concrete, realize, reject_unless
    import ak.short_uuid as mod
    reject_unless(0 <= k1 <= 22 and 0 <= k2 <= 22)
    k1, k2 = realize(k1), realize(k2)
    with concrete():
        alphabet = list(mod._ALPHABET)
        base = len(alphabet)

        def numbers(k):
            if k == 0:
                return [0]
            res = []
            for lead in (1, base - 1):
                for fill in (0, base - 1):
                    n = lead * base ** (k - 1) + sum(fill * base ** i for i in range(k - 1))
                    if n < (1 << 128):
                        res.append(n)
            return sorted(set(res))

        for n1 in numbers(k1):
            for n2 in numbers(k2):
                hist = []
                for n in (n1, n2, n1):
                    s = mod.uuid_to_short_str(_uuid.UUID(int=n))
                    hist.append((n, s))
                    exp = _ref_encode(n, alphabet)
                    if s != exp:
                        raise Violation(f"history-dependent-encoding :: after encoding {[h[0] for h in hist[:-1]]} in this process, "
                                        f"uuid_to_short_str(UUID(int={n})) gives {s!r}; the encoding of that uuid is {exp!r}")
                    try:
                        back = mod.uuid_from_short_str(s)
                    except ValueError as e:
                        raise Violation(f"history-dependent-decoding :: own encoding {s!r} of {n} rejected after {[h[0] for h in hist]}: {e}")
                    if back.int != n:
                        raise Violation(f"history-dependent-decoding :: {s!r} decodes to {back.int}, not {n}, after {[h[0] for h in hist]}")


def h_non_str(kind: int) -> None:
    from vf.xh import Violation, reject_unless
    import ak.short_uuid as mod
    reject_unless(0 <= kind < 5)
    v = [None, 5, b"hfDoPxAatD8tiFaSAL3oXh", ["h"] * 22, 1.5][kind]
    try:
        mod.uuid_from_short_str(v)
    except ValueError:
        return
    raise Violation(f"non-str :: uuid_from_short_str({v!r}) did not raise ValueError")


def jobs(tier: str) -> List[Job]:
    t = tier == "thorough"
    return [
        Job(module=__name__, func="q_solver", kind="solver", fixed={"max_other_len": 120 if t else 40}, label="p2s:bijection+rejection"),
        Job(module=__name__, func="h_from_str_canonical", budget_s=240 if t else 40, per_path_timeout=20, label="xh:from_str_canonical"),
        Job(module=__name__, func="h_short_bad_char", budget_s=240 if t else 40, per_path_timeout=20, label="xh:short_bad_char"),
        Job(module=__name__, func="h_non_str", budget_s=30, label="xh:non_str"),
        Job(module=__name__, func="h_history", budget_s=240 if t else 60, label="xh:call-histories", must_exhaust=True),
        Job(module=__name__, func="h_boundary", budget_s=240 if t else 60, label="xh:boundary-strings", must_exhaust=True),
    ]
