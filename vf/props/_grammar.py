"""Shared machinery for C01-C03: grammar families with holes, reference algorithms written from the property statements
(token sequence by construction, derivation checker, sentence recogniser, NULLABLE/FIRST/FOLLOW/predict, left-recursion graph),
and a fuel-limited call of the real parser."""
from __future__ import annotations

import itertools
from typing import Any, Dict, List, Optional, Tuple

TOKENIZER = r"""
    (?P<SPACE>\s+)
    |(?P<X>x)
    |(?P<YY>y)
    |(?P<IDENT>[a-z]+)
"""
# the keywords are keyed on a token name that is itself the target of a synonym (IDENT -> WORD)
SYNONYMS = {"X": "x", "YY": "y", "IDENT": "WORD"}
KEYWORDS = {("WORD", "zed"): "z", ("WORD", "wug"): "w"}
LEXEME = {"x": "x", "y": "y", "z": "zed", "w": "wug", "WORD": "foo"}
TERMS = ["x", "y", "z"]
TERMS4 = ["x", "y", "z", "w"]
TERMS_WORD = ["x", "z", "WORD"]
ALL_TERMS = ["x", "y", "z", "w", "WORD"]

# families: role-named non-terminals S (start), A, B, C; '?k' = hole k; '-' = empty alternative
FAMILIES: Dict[str, Tuple[str, List[str]]] = {
    # name: (template, hole domain)
    "prefix2": ("S: ?0 ?1 ?2 | ?0 ?1 ?3 ; A: x A | - ; B: y | z B", ["x", "y", "z", "A", "B"]),
    "prefix3": ("S: ?0 ?1 | ?0 ?2 | ?0 ; A: x A | - ; B: y | z B", ["x", "y", "z", "A", "B"]),
    "nested": ("S: ?0 ?1 ?2 | ?0 ?1 | ?0 ?3 | z ; A: x | - ; B: y B | -", ["x", "y", "z", "A", "B"]),
    "smart1": ("S: x ?0 | x ?1 | ?2 ?3 ; A: y | - ; B: z | x", ["x", "y", "z", "A", "B"]),
    "rollback": ("S: A ?0 z | A ?1 | ?2 ; A: x | x y ; B: y | -", ["x", "y", "z", "A", "B"]),
    "nullamb": ("S: A B ?0 | ?1 ; A: x | - ; B: x | ?2 | -", ["x", "y", "z", "A", "B"]),
    "wide": ("S: x y | x z | x A | x B | x x | x ?0 ?1 | x ; A: y A | z ; B: - | z", ["x", "y", "z", "A", "B"]),
    "recur": ("S: ?0 S | ?1 ; A: x | - ; B: ?2 | y", ["x", "y", "z", "A", "B", "S"]),
    "twolevel": ("S: A ?0 | B ?1 ; A: ?2 | - ; B: y | -", ["x", "y", "z", "A", "B"]),
    "follow": ("S: A C ?0 ; A: B C | x ; B: y | - ; C: ?1 | - ", ["x", "y", "z", "B", "C"]),
    "ll1": ("S: x A ?0 | y B ; A: ?1 A | - ; B: ?2 | z B", ["x", "y", "z", "A", "B"]),
    "hidden": ("S: A B ?0 | z ; A: ?1 | - ; B: ?2 S | -", ["x", "y", "A", "B", "S"]),
    "deep": ("S: A ; A: B ?0 | ?1 ; B: C ?2 | - ; C: x | -", ["x", "y", "A", "B", "C", "S"]),
    "ll1a": ("S: A B ?0 ; A: x A | - ; B: ?1 B | -", ["x", "y", "z"]),
    "ll1c": ("S: A B C z ; A: x | - ; B: ?0 | - ; C: ?1 C | ?2", ["x", "y", "z", "-"]),
    "ll1d": ("S: A ?0 | ?1 ; A: B C ; B: x B | - ; C: ?2 | -", ["x", "y", "z", "A"]),
    "follow2": ("S: A B ?0 | ?1 B ?2 ; A: ?3 | - ; B: y | -", ["x", "y", "z", "w"]),
    "follow3": ("S: A B C ?0 | w ; A: x | - ; B: ?1 | - ; C: ?2 | -", ["x", "y", "z", "w"]),
    "rollback2": ("S: A B | C y ?0 | ?1 ; A: x | - ; C: w | - ; B: y ?2", ["x", "y", "z", "w"]),
    "prefixmid": ("S: x y ?0 | x A ?1 | x y ?2 ; A: y | ?3", ["x", "y", "z", "w"]),
    "prefixrec": ("S: A ?0 ?1 | A ?2 ?3 ; A: x | -", ["x", "y", "S", "A"]),
    "unreach": ("S: x ?0 ; A: ?1 A | B ; B: ?2 | -", ["x", "y", "A", "B"]),
    # an alternative made only of nullable non-terminals (not literally empty), listed after an explicit one
    "nullalt": ("S: A ?0 | ?3 ; A: ?1 | B ; B: ?2 | -", ["x", "y", "z", "-"]),
    # alternatives with a common prefix of two symbols whose remainders start alike but are not equivalent (the conflict lives
    # in the parser's own suffix symbol; with a conflict-free verdict the language must still be exact)
    "suffixconflict": ("S: ?2 y A | ?2 y B ; A: ?0 ; B: ?0 ?1 ; C: x | -", ["x", "y", "z", "C"]),
    # a token that the tokenizer skips used as a terminal: such a production never matches, and it is no recursion
    "skiptok": ("S: A SPACE S | ?0 S | - ; A: ?1 | -", ["x", "y", "A"]),
    # a plain WORD next to a keyword made of a WORD
    "kwword": ("S: z ?0 | WORD ?1 | ?2 ; A: WORD | z A | -", ["x", "z", "WORD", "A", "S", "-"]),
    # a symbol that derives only the empty string, at the head of a production
    "epsonly": ("S: B ?0 | ?1 ; B: A ?2 ?3 ; A: -", ["x", "y", "z", "A", "B"]),
    # a symbol that is nullable only through its production (no empty alternative of its own), in front of a recursion
    # a symbol nested inside its own production with something after it (centre recursion): FOLLOW of the symbol must contain
    # what follows the nested occurrence
    "selfnest": ("S: ?0 S ?1 | ?2 A ; A: ?3 | -", ["x", "y", "z", "-"]),
    "derivnull": ("S: B ?0 | z ; B: C ?1 x | ?2 ; C: A D ; A: x | - ; D: ?3 | -", ["x", "y", "B", "-"]),
}


def n_holes(family: str) -> int:
    t = FAMILIES[family][0]
    return 1 + max(int(tok[1:]) for tok in t.replace(";", " ").replace("|", " ").replace(":", " ").split() if tok.startswith("?"))


def instantiate(family: str, holes: List[int], names: Dict[str, str], reverse: bool = False) -> Dict[str, List[Tuple[str, ...]]]:
    """-> {non-terminal name: [alternative tuples]} in declaration order (reverse=True: symbols declared bottom-up)"""
    template, dom = FAMILIES[family]
    g: Dict[str, List[Tuple[str, ...]]] = {}
    for part in template.split(";"):
        part = part.strip()
        if not part:
            continue
        head, body = part.split(":")
        alts = []
        for alt in body.split("|"):
            syms = []
            for tok in alt.split():
                if tok == "-":
                    continue
                if tok.startswith("?"):
                    tok = dom[holes[int(tok[1:])]]
                    if tok == "-":
                        continue
                syms.append(names.get(tok, tok))
            alts.append(tuple(syms))
        g[names.get(head.strip(), head.strip())] = alts
    if reverse:
        g = dict(reversed(list(g.items())))
    return g


NAME_PERMS = [dict(zip("SABC", p)) for p in [("E", "A", "B", "C"), ("Mm", "Aa", "Zz", "Cc"), ("Aa", "Mm", "Zz", "Kk"), ("Zz", "Aa", "Mm", "Bb"),
                                              ("Mm", "Zz", "Aa", "Nn"), ("Aa", "Zz", "Mm", "Yy"), ("Zz", "Mm", "Aa", "Pp")]]


def to_productions(g):
    return {nt: [alt if alt else None for alt in alts] for nt, alts in g.items()}


# ---------------------------------------------------------------------------------------------------
# reference algorithms
# ---------------------------------------------------------------------------------------------------
def nullables(g) -> set:
    nl: set = set()
    changed = True
    while changed:
        changed = False
        for nt, alts in g.items():
            if nt not in nl and any(all(s in nl for s in alt) for alt in alts):
                nl.add(nt)
                changed = True
    return nl


def left_recursive(g) -> bool:
    """some symbol can reach itself again without consuming a token (anywhere in the grammar, reachable or not)"""
    nl = nullables(g)
    edges = {nt: set() for nt in g}
    for nt, alts in g.items():
        for alt in alts:
            for s in alt:
                if s in g:
                    edges[nt].add(s)
                if s not in nl:
                    break
    # cycle detection
    color: Dict[str, int] = {}

    def dfs(u):
        color[u] = 1
        for v in edges[u]:
            if color.get(v) == 1:
                return True
            if v not in color and dfs(v):
                return True
        color[u] = 2
        return False
    return any(nt not in color and dfs(nt) for nt in g)


def first_follow_predict(g, start):
    nl = nullables(g)
    first = {nt: set() for nt in g}
    changed = True
    while changed:
        changed = False
        for nt, alts in g.items():
            for alt in alts:
                for s in alt:
                    add = first[s] if s in g else {s}
                    if not add <= first[nt]:
                        first[nt] |= add
                        changed = True
                    if s not in nl:
                        break

    def first_of_seq(seq):
        out = set()
        for s in seq:
            out |= first[s] if s in g else {s}
            if s not in nl:
                return out, False
        return out, True
    follow = {nt: set() for nt in g}
    follow[start].add("$")
    changed = True
    while changed:
        changed = False
        for nt, alts in g.items():
            for alt in alts:
                for i, s in enumerate(alt):
                    if s not in g:
                        continue
                    f, eps = first_of_seq(alt[i + 1:])
                    add = set(f)
                    if eps:
                        add |= follow[nt]
                    if not add <= follow[s]:
                        follow[s] |= add
                        changed = True
    predict = {}
    for nt, alts in g.items():
        ps = []
        for alt in alts:
            f, eps = first_of_seq(alt)
            p = set(f)
            if eps:
                p |= follow[nt]
            ps.append(p)
        predict[nt] = ps
    return nl, first, follow, predict


def reachable(g, start) -> set:
    seen = {start}
    todo = [start]
    while todo:
        u = todo.pop()
        for alt in g.get(u, []):
            for s in alt:
                if s in g and s not in seen:
                    seen.add(s)
                    todo.append(s)
    return seen


def is_ll1(g, start) -> bool:
    if left_recursive(g):
        return False
    _, _, _, predict = first_follow_predict(g, start)
    for nt, ps in predict.items():
        for i in range(len(ps)):
            for j in range(i + 1, len(ps)):
                if ps[i] & ps[j]:
                    return False
    # duplicate alternatives are a conflict as well
    for nt, alts in g.items():
        if len(set(alts)) != len(alts):
            return False
    return True


def recognises(g, start, toks: Tuple[str, ...]) -> bool:
    """independent recogniser: least fixpoint of  D[nt] = {(i, j): some alternative derives toks[i:j]}"""
    n = len(toks)
    D = {nt: set() for nt in g}
    changed = True
    while changed:
        changed = False
        for nt, alts in g.items():
            for alt in alts:
                # positions reachable after matching a prefix of alt starting at i
                for i in range(n + 1):
                    ends = {i}
                    for s in alt:
                        nxt = set()
                        for e in ends:
                            if s in g:
                                nxt |= {j for (a, j) in D[s] if a == e}
                            elif e < n and toks[e] == s:
                                nxt.add(e + 1)
                        ends = nxt
                        if not ends:
                            break
                    for e in ends:
                        if (i, e) not in D[nt]:
                            D[nt].add((i, e))
                            changed = True
    return (0, n) in D[start]


def all_token_strings(maxlen: int, terms=None):
    for n in range(maxlen + 1):
        for t in itertools.product(terms or TERMS, repeat=n):
            yield t


def terms_of(g):
    """3 terminals unless the grammar uses the 4th one"""
    if any("WORD" in alt for alts in g.values() for alt in alts):
        return TERMS_WORD
    return TERMS4 if any("w" in alt for alts in g.values() for alt in alts) else TERMS


def check_derivation(root, g, start, toks) -> Optional[str]:
    """C01's oracle: the returned tree is a valid derivation of the user's grammar over exactly these tokens"""
    if root.name != start:
        return f"root is {root.name!r}, not the start symbol {start!r}"
    leaves: List[Tuple[str, Any]] = []
    stack = [root]
    order: List[Any] = []

    def walk(node) -> Optional[str]:
        if "__" in node.name:
            return f"helper symbol {node.name!r} appears in the returned tree"
        if node.name in g:
            if node.value is None:
                kids: Tuple[str, ...] = ()
            elif isinstance(node.value, list):
                kids = tuple(c.name for c in node.value)
            else:
                return f"node {node.name!r} has a non-list value {node.value!r}"
            if kids not in g[node.name]:
                return f"node {node.name!r} with children {kids} is not one of the productions {g[node.name]}"
            for c in (node.value or []):
                e = walk(c)
                if e:
                    return e
            return None
        if node.name in ALL_TERMS:
            if not isinstance(node.value, str):
                return f"leaf {node.name!r} has value {node.value!r}"
            leaves.append((node.name, node.value))
            return None
        return f"node name {node.name!r} is neither a grammar symbol nor a terminal"
    e = walk(root)
    if e:
        return e
    want = [(t, LEXEME[t]) for t in toks]
    if leaves != want:
        return f"leaves {leaves} differ from the input tokens {want}"
    return None


# ---------------------------------------------------------------------------------------------------
# the real parser, with fuel
# ---------------------------------------------------------------------------------------------------
class FuelExhausted(Exception):
    pass


class Fuel:
    """counts _StackElement constructions + production switches of the real parse loop"""

    def __init__(self, limit):
        self.limit = limit
        self.n = 0

    def __enter__(self):
        import ak.llparser as L
        self.L = L
        self.orig = L._StackElement
        fuel = self

        class Counted(L._StackElement):       # noqa
            def __init__(self, *a, **kw):
                fuel.n += 1
                if fuel.n > fuel.limit:
                    raise FuelExhausted()
                super().__init__(*a, **kw)

            def switch_to_next_prod(self):
                fuel.n += 1
                if fuel.n > fuel.limit:
                    raise FuelExhausted()
                super().switch_to_next_prod()
        L._StackElement = Counted
        return self

    def __exit__(self, *a):
        self.L._StackElement = self.orig
        return False


def build_parser(g, start, smart: bool):
    """-> (parser or None, exception class name or None)"""
    import ak.llparser as L
    try:
        p = L.LLParser(TOKENIZER, synonyms=dict(SYNONYMS), keywords=dict(KEYWORDS), productions=to_productions(g), start_symbol_name=start,
                       smart_factorization=smart)
        return p, None
    except L.GrammarIsRecursive:
        return None, "GrammarIsRecursive"
    except L.GrammarError:
        return None, "GrammarError"
    except AssertionError:
        return None, "AssertionError"


def parse_tokens(parser, toks, fuel_limit=20000):
    """-> ('tree', root) | ('ParsingError', None) | ('fuel', None) | ('exc', exception)"""
    import ak.llparser as L
    text = " ".join(LEXEME[t] for t in toks)
    try:
        with Fuel(fuel_limit):
            root = parser.parse(text, do_cleanup=False)
        return "tree", root
    except FuelExhausted:
        return "fuel", None
    except L.ParsingError:
        return "ParsingError", None
    except Exception as e:  # noqa
        return "exc", e


def describe(g) -> str:
    return "; ".join(f"{nt} -> " + " | ".join(" ".join(a) if a else "ε" for a in alts) for nt, alts in g.items())
