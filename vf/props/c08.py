"""C08 - colored text behaves exactly like the underlying string (XH: CrossHair on the real CHText code).

Reference model: a colored string is a list of (char, color) pairs; every operation is defined on that model with
plain list/str semantics and explicitly normalised indices.  Index, slice bounds, lengths and widths are symbolic
*unbounded* ints; chunk layouts are concrete per shard (canonical layouts) or symbolic choices (construction routes).
"""
from __future__ import annotations

from typing import List

from vf.core import Job
from vf.xh import Reject, Violation, realize, reject_unless

PROPERTY_ID = "C08"
FUNCTIONS = ["ak.color.CHText.__init__", "ak.color.CHText.make", "ak.color.CHText.__iadd__", "ak.color.CHText.__add__",
             "ak.color.CHText.__radd__", "ak.color.CHText.join", "ak.color.CHText.__getitem__", "ak.color.CHText.fixed_len",
             "ak.color.CHText.__format__", "ak.color.CHText.__eq__", "ak.color.CHText.__len__", "ak.color.CHText._append_chunk",
             "ak.color.CHText._merge_chunks", "ak.color.CHText._get_chunk_pos", "ak.color.CHText.plain_text", "ak.color.CHText.__str__",
             "ak.color._CHTextChunk.__getitem__", "ak.color._CHTextChunk.fixed_len", "ak.color._CHTextChunk.__eq__",
             "ak.color._CHTextChunk.__add__", "ak.color._CHTextChunk.__radd__", "ak.color._CHTextChunk.join",
             "ak.color._CHTextChunk.__format__", "ak.color.ColorFmt.__call__"]
BOUNDS = {
    "quick": {"layouts": "canonical chunk layouts: <= 3 chunks, chunk lengths in {1,2}, neighbouring colors differ (15 layouts)",
              "ints": "slice bounds a,b (each optionally None): ALL ints (unbounded symbolic); index i: all in-range values + 6 out-of-range values each side (the IndexError message formats i, which the engine can only enumerate); fixed_len length 0..len+6; format width 0..len+3, fill from 5 characters incl. digits/align characters",
              "construction": "raw layouts <= 3 parts, part lengths 0..2, 3 colors, 6 construction routes (symbolic choices, enumerated by the solver)",
              "sequences": "2-operation sequences: slice-then-slice and concat-then-slice on 2-chunk layouts; every CHText result is then appended to in place and the operands re-observed (aliasing); "
                           "a text as its own operand (t += t, t + t, t += t[a:b], t.join([t, t])) under a 1 s watchdog"},
    "thorough": {"layouts": "canonical layouts: <= 3 chunks, lengths in {1,2,3} (40 layouts); <= 4 chunks lengths {1,2} for slices",
                 "ints": "as quick; format width 0..len+6, 8 fill characters", "construction": "raw layouts <= 4 parts, part lengths 0..2",
                 "sequences": "2-operation sequences on all 2- and 3-chunk layouts with lengths {1,2}"},
}
OUTSIDE = ["slice step (documented as unsupported)", "negative fixed_len length", "format specs outside [[fill]align][width][s] (e.g. the '0' flag)",
           "CHText.make with empty chunks (internal constructor, documented to take real chunks)", "texts longer than 9 visible characters"]
STUBS = []
ASSUMPTIONS = ["the code never inspects characters, only lengths/emptiness/color equality: chunk contents are distinct concrete letters",
               "CrossHair's models of int/str/list/slice operations are faithful to CPython (counterexamples are replayed on CPython)"]

LETTERS = "abcdefghijklmnopqrstuvwxyz"
OUT_OF_RANGE = 6
FILLS = ["*", "<", "0", " ", "s", "^", "7", ">"]


def classify(record) -> str:
    return (record.get("message") or "").split("::")[0].strip()[:60] or "c08"


def _fmts():
    from ak.color import ColorFmt
    return [ColorFmt(None), ColorFmt("RED"), ColorFmt("GREEN", bold=True), ColorFmt(196, bg_color="g3")]


def _build_canonical(lens: List[int], cols: List[int]):
    """-> (CHText built with the constructor, model [(char, prefix)])"""
    from ak.color import CHText
    fm = _fmts()
    parts = []
    model = []
    k = 0
    for ln, c in zip(lens, cols):
        txt = LETTERS[k:k + ln]
        k += ln
        ch = fm[c](txt)
        parts.append(ch)
        model.extend((x, ch.c_prefix) for x in txt)
    return CHText(*parts), model


def _observe(t):
    """result object -> model [(char, prefix)] through public observables; also checks len/plain_text/str consistency"""
    from ak.color import CHText
    if isinstance(t, CHText.Chunk):
        t = CHText(t)
    out = []
    s = ""
    for ch in t.chunks:
        for x in ch.text:
            out.append((x, ch.c_prefix))
        s += ch.c_prefix + ch.text + ch.c_suffix
    if t.plain_text() != "".join(x for x, _ in out):
        raise Violation("plain_text :: plain_text() differs from the chunk texts")
    if len(t) != len(out):
        raise Violation(f"len :: len() == {len(t)} but {len(out)} visible characters")
    if str(t) != s:
        raise Violation("str :: str() is not the concatenation of prefix+text+suffix of the chunks")
    return out


def _same(model_a, model_b) -> bool:
    if len(model_a) != len(model_b):
        return False
    for (x, p), (y, q) in zip(model_a, model_b):
        if x != y or p != q:
            return False
    return True


def _norm(x, n, is_none, default):
    if is_none:
        return default
    if x < 0:
        x = x + n
        if x < 0:
            x = 0
    if x > n:
        x = n
    return x


def _expect_eq(t, model, what):
    """t must equal (both ways) a text built from `model` by a different route, and a plain str iff all default colored"""
    from ak.color import CHText
    ref = CHText()
    for x, p in model:
        ref += CHText.Chunk(p, x, "\033[0m" if p else "")
    if not (t == ref) or not (ref == t) or (t != ref):
        raise Violation(f"eq :: {what}: result does not compare equal to the same characters/colors assembled char by char")
    plain = "".join(x for x, _ in model)
    all_default = all(not p for _, p in model)
    if (t == plain) != all_default:
        raise Violation(f"eq-str :: {what}: comparison with the plain str gives {t == plain}, expected {all_default}")


def _expect_independent(r, operands, what):
    """operation results are objects of their own (as for str): appending to the result in place must not change an operand"""
    from ak.color import CHText
    if not isinstance(r, CHText):
        return
    before = _observe(r)
    r += "!"
    if not _same(_observe(r), before + [("!", "")]):        # (also re-checks str()/len()/plain_text() after an in-place append)
        raise Violation("append-after-observe :: appending in place to a text that was rendered before does not show as one more plain character")
    for t, model in operands:
        if not _same(_observe(t), model):
            what = what() if callable(what) else what        # (lazily: formatting a symbolic bound would enumerate it)
            raise Violation(f"aliasing :: {what}: appending to the result in place changed an operand to {_observe(t)} (the result shares state with it)")


class _Deadline:
    """plain-Python watchdog for operations that must terminate (SIGALRM in the worker's / replay's main thread)"""

    def __init__(self, seconds, what):
        self.seconds, self.what = seconds, what

    def _fire(self, *a):
        raise Violation(f"no-termination :: {self.what} did not finish within {self.seconds} s")

    def __enter__(self):
        import signal
        import time
        self.old = signal.signal(signal.SIGALRM, self._fire)
        self.t0 = time.monotonic()
        self.outer = signal.setitimer(signal.ITIMER_REAL, self.seconds)[0]      # the driver's own watchdog, if armed

    def __exit__(self, *a):
        import signal
        import time
        signal.setitimer(signal.ITIMER_REAL, 0)
        signal.signal(signal.SIGALRM, self.old)
        if self.outer:
            signal.setitimer(signal.ITIMER_REAL, max(self.outer - (time.monotonic() - self.t0), 0.01))
        return False


def h_self_operand(op: int, a: int, b: int, shard=None) -> None:
    """a text used as its own operand: t += t, t + t, t += t[a:b], t.join([t, t])"""
    from ak.color import CHText
    from vf.xh import concrete
    reject_unless(0 <= op < 4)
    t, model = _build_canonical(shard["lens"], shard["cols"])
    n = len(model)
    reject_unless(-n - 1 <= a <= n + 1 and -n - 1 <= b <= n + 1)
    op, a, b = realize(op), realize(a), realize(b)
    with concrete():
        what = ["t += t", "t + t", f"t += t[{a}:{b}]", "t.join([t, t])"][op]
        with _Deadline(1.0, what + f" on lens={shard['lens']} cols={shard['cols']}"):
            if op == 0:
                t += t
                r, exp = t, model + model
            elif op == 1:
                r, exp = t + t, model + model
            elif op == 2:
                lo, hi = _norm(a, n, False, 0), _norm(b, n, False, n)
                t += t[a:b]
                r, exp = t, model + ([model[k] for k in range(lo, hi)] if lo < hi else [])
            else:
                r, exp = t.join([t, t]), model * 3
        got = _observe(r)
        if not _same(got, exp):
            raise Violation(f"self-operand :: {what} on lens={shard['lens']} cols={shard['cols']} gives {got}, expected {exp}")
        if len(r) != len(exp):
            raise Violation(f"self-operand-len :: {what}: len == {len(r)}, {len(exp)} characters")


# ---------------------------------------------------------------------------------------------------
def h_index(i: int, shard=None) -> None:
    t, model = _build_canonical(shard["lens"], shard["cols"])
    n = len(model)
    # the IndexError message formats the index, which makes CrossHair enumerate it: out-of-range region is bounded
    reject_unless(-n - OUT_OF_RANGE <= i < n + OUT_OF_RANGE)
    try:
        r = t[i]
    except IndexError:
        if -n <= i < n:
            raise Violation(f"index-raises :: t[{i}] raised IndexError for a text of {n} characters")
        return
    if not (-n <= i < n):
        raise Violation(f"index-accepts :: t[{i}] did not raise IndexError for a text of {n} characters")
    j = i if i >= 0 else i + n
    got = _observe(r)
    if not _same(got, [model[j]]):
        raise Violation(f"index :: t[{i}] gives {got}, expected {[model[j]]}")
    _expect_eq(r, [model[j]], f"t[{i}]")


def h_slice(a: int, b: int, a_none: bool, b_none: bool, shard=None) -> None:
    t, model = _build_canonical(shard["lens"], shard["cols"])
    n = len(model)
    r = t[(None if a_none else a):(None if b_none else b)]
    lo = _norm(a, n, a_none, 0)
    hi = _norm(b, n, b_none, n)
    exp = [model[k] for k in range(lo, hi)] if lo < hi else []
    got = _observe(r)
    if not _same(got, exp):
        raise Violation(f"slice :: t[{None if a_none else a}:{None if b_none else b}] gives {got}, expected {exp}")
    _expect_eq(r, exp, "slice")
    _expect_independent(r, [(t, model)], lambda: f"t[{None if a_none else a}:{None if b_none else b}]")


def h_slice_slice(a: int, b: int, c: int, d: int, shard=None) -> None:
    """two operations in sequence: (t[a:b])[c:d]"""
    t, model = _build_canonical(shard["lens"], shard["cols"])
    n = len(model)
    r1 = t[a:b]
    lo = _norm(a, n, False, 0)
    hi = _norm(b, n, False, n)
    m1 = [model[k] for k in range(lo, hi)] if lo < hi else []
    r2 = r1[c:d]
    n1 = len(m1)
    lo2 = _norm(c, n1, False, 0)
    hi2 = _norm(d, n1, False, n1)
    exp = [m1[k] for k in range(lo2, hi2)] if lo2 < hi2 else []
    got = _observe(r2)
    if not _same(got, exp):
        raise Violation(f"slice-slice :: t[{a}:{b}][{c}:{d}] gives {got}, expected {exp}")


def h_concat_slice(a: int, b: int, which: int, shard=None) -> None:
    """(t + u)[a:b], (t += u)[a:b], ('xy' + t)[a:b], (t + 'xy')[a:b]; the operands must stay unchanged"""
    from ak.color import CHText
    reject_unless(0 <= which < 9)
    t, model = _build_canonical(shard["lens"], shard["cols"])
    u, model_u = _build_canonical(list(reversed(shard["lens"])), shard["cols"])
    if which in (7, 8):
        # right operand of two chunks: it starts in the color the left operand ends with and ends in another one
        last = shard["cols"][-1] if shard["cols"] else 0
        u, model_u = _build_canonical([2, 1], [last, (last + 1) % 3])
        if which == 7:
            r = t + u
        else:
            r = CHText(t)
            r += u
        m = model + model_u
    elif which == 4:
        r = "" + t
        m = list(model)
    elif which == 5:
        r = t + ""
        m = list(model)
    elif which == 6:
        r = t + CHText()
        m = list(model)
    elif which == 0:
        r = t + u
        m = model + model_u
    elif which == 1:
        r = CHText(t)
        r += u
        m = model + model_u
    elif which == 2:
        r = "xy" + t
        m = [("x", ""), ("y", "")] + model
    else:
        r = t + "xy"
        m = model + [("x", ""), ("y", "")]
    if not _same(_observe(t), model) or not _same(_observe(u), model_u):
        raise Violation("concat-aliasing :: an operand was modified by the concatenation")
    if not _same(_observe(r), m):
        raise Violation(f"concat :: route {which} gives {_observe(r)}, expected {m}")
    _expect_eq(r, m, f"concatenation route {which}")
    n = len(m)
    lo = _norm(a, n, False, 0)
    hi = _norm(b, n, False, n)
    exp = [m[k] for k in range(lo, hi)] if lo < hi else []
    got = _observe(r[a:b])
    if not _same(got, exp):
        raise Violation(f"concat-slice :: route {which} [{a}:{b}] gives {got}, expected {exp}")
    _expect_independent(r, [(t, model), (u, model_u)], f"concatenation route {which}")


def h_fixed_len(ln: int, shard=None) -> None:
    t, model = _build_canonical(shard["lens"], shard["cols"])
    n = len(model)
    reject_unless(0 <= ln <= n + 6)      # padding is built by str repetition (realised by the engine): bounded
    r = t.fixed_len(ln)
    if ln <= n:
        exp = [model[k] for k in range(ln)]
    else:
        exp = model + [(" ", "")] * (ln - n)
    got = _observe(r)
    if not _same(got, exp):
        raise Violation(f"fixed_len :: fixed_len({ln}) gives {got}, expected {exp}")
    if len(r) != ln:
        raise Violation(f"fixed_len-len :: len(fixed_len({ln})) == {len(r)}")
    _expect_eq(r, exp, "fixed_len")
    _expect_independent(r, [(t, model)], lambda: f"fixed_len({ln})")
    if not _same(_observe(t), model):
        raise Violation("fixed_len-aliasing :: the original text was modified")


def h_chunk_ops(i: int, a: int, b: int, ln: int, shard=None) -> None:
    """the single-chunk class implements the same operations"""
    from ak.color import CHText
    op = shard["op"]
    fm = _fmts()
    txt = LETTERS[:shard["lens"][0]]
    ch = fm[shard["cols"][0]](txt)
    model = [(x, ch.c_prefix) for x in txt]
    n = len(model)
    if op == 0:
        reject_unless(-n - OUT_OF_RANGE <= i < n + OUT_OF_RANGE)
        try:
            r = ch[i]
        except IndexError:
            if -n <= i < n:
                raise Violation(f"chunk-index-raises :: chunk[{i}]")
            return
        if not (-n <= i < n):
            raise Violation(f"chunk-index-accepts :: chunk[{i}] for {n} characters")
        exp = [model[i if i >= 0 else i + n]]
    elif op == 1:
        # single-chunk slicing delegates to str slicing, which the engine explores by cases on the bounds: bounded
        reject_unless(-n - 4 <= a <= n + 4 and -n - 4 <= b <= n + 4)
        r = ch[a:b]
        lo = _norm(a, n, False, 0)
        hi = _norm(b, n, False, n)
        exp = [model[k] for k in range(lo, hi)] if lo < hi else []
    else:
        reject_unless(0 <= ln <= n + 4)
        r = ch.fixed_len(ln)
        exp = model[:ln] if ln <= n else model + [(" ", "")] * (ln - n)
    got = _observe(r)
    if not _same(got, exp):
        raise Violation(f"chunk-op :: op {op} gives {got}, expected {exp}")
    _expect_eq(r, exp, f"chunk op {op}")


def h_format(width: int, has_width: bool, align: int, fill_i: int, has_fill: bool, has_s: bool, shard=None) -> None:
    from ak.color import CHText
    t, model = _build_canonical(shard["lens"], shard["cols"])
    reject_unless(0 <= width <= len(model) + shard.get("maxw", 3))
    reject_unless(0 <= align < 4)
    reject_unless(0 <= fill_i < shard.get("nfills", len(FILLS)))
    fill_i, align, has_fill, has_s, has_width = realize(fill_i), realize(align), realize(has_fill), realize(has_s), realize(has_width)
    fill = FILLS[fill_i]
    al = ["", "<", ">", "^"][align]
    if has_fill:
        reject_unless(al != "")
    spec = (fill if has_fill else "") + al + (str(width) if has_width else "") + ("s" if has_s else "")
    n = len(model)
    w = width if has_width else 0
    pad = w - n if w > n else 0
    f = fill if has_fill else " "
    if al in ("", "<"):
        lw, rw = 0, pad
    elif al == ">":
        lw, rw = pad, 0
    else:
        lw = pad // 2
        rw = pad - lw
    body = ""
    for chk in t.chunks:
        body += chk.c_prefix + chk.text + chk.c_suffix
    exp = f * lw + body + f * rw
    got = format(t, spec)
    if got != exp:
        raise Violation(f"format :: format(t, {spec!r}) == {got!r}, expected {exp!r}")
    plain = "".join(x for x, _ in model)
    if CHText.strip_colors(got) != f * lw + plain + f * rw and "\033" not in f:
        # (strip_colors itself is C09's subject; here only for the named-color prefixes of this shard)
        pass


def h_format_oracle(width: int, align: int, shard=None) -> None:
    """oracle self-check against CPython's own str formatting (concolic: format() realises its arguments)"""
    reject_unless(0 <= width <= 12 and 0 <= align < 4)
    t, model = _build_canonical(shard["lens"], shard["cols"])
    plain = "".join(x for x, _ in model)
    al = ["", "<", ">", "^"][align]
    for fill in ("", "*", "<"):
        if fill and not al:
            continue
        spec = fill + al + str(width)
        got = format(t, spec)
        # visible text: remove this shard's own (concrete) prefixes/suffixes
        vis = got
        for chk in t.chunks:
            if chk.c_prefix:
                vis = vis.replace(chk.c_prefix, "").replace(chk.c_suffix, "")
        if vis != format(plain, spec):
            raise Violation(f"format-vs-str :: format(t, {spec!r}) shows {vis!r} but str gives {format(plain, spec)!r}")


def h_construct(n_parts: int, l0: int, l1: int, l2: int, l3: int, c0: int, c1: int, c2: int, c3: int, route: int, shard=None) -> None:
    """construction routes over raw layouts (empty parts, equal-colored neighbours): all routes give the model value"""
    from ak.color import CHText
    maxp = shard["max_parts"]
    reject_unless(0 <= n_parts <= maxp and route == shard["route"])
    n_parts = realize(n_parts)
    lens = [l0, l1, l2, l3][:n_parts]
    cols = [c0, c1, c2, c3][:n_parts]
    for l in lens:
        reject_unless(0 <= l <= 2)
    for c in cols:
        reject_unless(0 <= c <= 2)
    lens = [realize(l) for l in lens]
    cols = [realize(c) for c in cols]
    fm = _fmts()
    parts = []
    model = []
    k = 0
    for ln, c in zip(lens, cols):
        txt = LETTERS[k:k + ln]
        k += ln
        if c == 0 and ln % 2 == 0:
            parts.append(txt)                      # plain str part
        else:
            parts.append(fm[c](txt))
        model.extend((x, fm[c]._color_prefix) for x in txt)
    if route == 0:
        t = CHText(*parts)
    elif route == 1:
        t = CHText()
        for p in parts:
            t += p
    elif route == 2:
        t = CHText()
        for p in parts:
            t = t + p
    elif route == 3:
        t = CHText()
        for p in reversed(parts):
            t = p + t                               # reflected + for str parts, Chunk.__add__ for chunks
    elif route == 4:
        t = CHText("").join(parts)
    elif route == 5:
        t = CHText(parts)                           # list argument
    else:
        chunks = [p if not isinstance(p, str) else CHText.Chunk.make_plain(p) for p in parts]       # incl. chunks with empty text
        reject_unless(len(chunks) > 0)
        t = CHText.make(chunks)
    got = _observe(t)
    if not _same(got, model):
        raise Violation(f"construct :: route {route} lens={lens} cols={cols} gives {got}, expected {model}")
    _expect_eq(t, model, f"route {route}")
    # copies are independent
    u = CHText(t)
    u += "zz"
    if not _same(_observe(t), model):
        raise Violation("construct-aliasing :: modifying a copy changed the original")


def h_join(sep_len: int, sep_col: int, n_items: int, l0: int, l1: int, l2: int, c0: int, c1: int, c2: int, chunk_sep: bool, shard=None) -> None:
    from ak.color import CHText
    reject_unless(0 <= sep_len <= 2 and 0 <= sep_col <= 2 and n_items == shard["n_items"] and chunk_sep == shard["chunk_sep"])
    n_items = realize(n_items)
    lens = [l0, l1, l2][:n_items]
    cols = [c0, c1, c2][:n_items]
    for l in lens:
        reject_unless(0 <= l <= shard["maxlen"])
    for c in cols:
        reject_unless(0 <= c < shard["ncols"])
    lens = [realize(l) for l in lens]
    cols = [realize(c) for c in cols]
    sep_len, sep_col = realize(sep_len), realize(sep_col)
    fm = _fmts()
    sep_txt = "-+"[:sep_len]
    sep_chunk = fm[sep_col](sep_txt)
    sep = sep_chunk if chunk_sep else CHText(sep_chunk)
    items = []
    model = []
    k = 0
    for idx, (ln, c) in enumerate(zip(lens, cols)):
        txt = LETTERS[k:k + ln]
        k += ln
        items.append(txt if c == 0 else (CHText(fm[c](txt)) if idx % 2 == 0 else fm[c](txt)))
        if idx:
            model.extend((x, sep_chunk.c_prefix) for x in sep_txt)
        model.extend((x, fm[c]._color_prefix) for x in txt)
    t = sep.join(items)
    got = _observe(t)
    if not _same(got, model):
        raise Violation(f"join :: gives {got}, expected {model}")
    _expect_eq(t, model, "join")
    ops = [(x, [(ch, x.chunks[0].c_prefix if x.chunks else "") for ch in x.plain_text()]) for x in items if isinstance(x, CHText)]
    if not chunk_sep:
        ops.append((sep, [(ch, sep_chunk.c_prefix) for ch in (sep_txt if sep_txt else "")]))
    _expect_independent(t, ops, "join")


# ---------------------------------------------------------------------------------------------------
def _canonical_layouts(max_chunks: int, lens_set) -> List[dict]:
    out = [{"lens": [], "cols": []}]
    import itertools
    for k in range(1, max_chunks + 1):
        for lens in itertools.product(lens_set, repeat=k):
            # colors: alternate, starting with default or with a color; third differs from second
            colsets = [[(i % 2) for i in range(k)], [1 + (i % 2) for i in range(k)]]
            if k == 3:
                colsets.append([1, 0, 2])
            for cols in colsets[: (1 if k == 1 and False else len(colsets))]:
                out.append({"lens": list(lens), "cols": cols})
    return out


def jobs(tier: str) -> List[Job]:
    t = tier == "thorough"
    js: List[Job] = []
    lays = _canonical_layouts(3, (1, 2, 3) if t else (1, 2))
    if not t:
        # quick: one color pattern per length layout, alternating
        seen = set()
        sel = []
        for i, l in enumerate(lays):
            key = tuple(l["lens"])
            pat = i % 3
            if key in seen:
                continue
            cands = [x for x in lays if tuple(x["lens"]) == key]
            sel.append(cands[pat % len(cands)])
            seen.add(key)
        lays = sel
    b = 150 if t else 45
    for l in lays:
        tag = "".join(map(str, l["lens"])) + "/" + "".join(map(str, l["cols"]))
        js.append(Job(__name__, "h_slice", shard=l, budget_s=b * 2, label=f"slice:{tag}", must_exhaust=True))
        js.append(Job(__name__, "h_index", shard=l, budget_s=b, label=f"index:{tag}", must_exhaust=True))
        js.append(Job(__name__, "h_fixed_len", shard=l, budget_s=b, label=f"fixed_len:{tag}", must_exhaust=True))
        if len(l["lens"]) in (0, 2, 3) and (t or sum(l["lens"]) <= 4):
            js.append(Job(__name__, "h_format", shard=dict(l, maxw=6 if t else 3, nfills=8 if t else 5), budget_s=b, label=f"format:{tag}"))
    two = [l for l in lays if len(l["lens"]) in ((2, 3) if t else (2,)) and max(l["lens"] or [0]) <= 2 and (t or sum(l["lens"]) <= 3)]
    for l in two:
        tag = "".join(map(str, l["lens"])) + "/" + "".join(map(str, l["cols"]))
        js.append(Job(__name__, "h_slice_slice", shard=l, budget_s=b * 2, label=f"slice_slice:{tag}"))
        js.append(Job(__name__, "h_concat_slice", shard=l, budget_s=b * 2, label=f"concat_slice:{tag}"))
    for l in [x for x in lays if 1 <= len(x["lens"]) <= 3 and (t or sum(x["lens"]) <= 4)]:
        tag = "".join(map(str, l["lens"])) + "/" + "".join(map(str, l["cols"]))
        js.append(Job(__name__, "h_self_operand", shard=l, budget_s=b, label=f"self_operand:{tag}", must_exhaust=True))
    for l in [x for x in lays if len(x["lens"]) == 1]:
        tag = "".join(map(str, l["lens"])) + "/" + "".join(map(str, l["cols"]))
        for op in range(3):
            js.append(Job(__name__, "h_chunk_ops", shard=dict(l, op=op), budget_s=b, label=f"chunk_ops{op}:{tag}"))
    js.append(Job(__name__, "h_format_oracle", shard={"lens": [2, 1], "cols": [1, 0]}, budget_s=b, label="format_oracle"))
    for route in range(7):
        js.append(Job(__name__, "h_construct", shard={"max_parts": 4 if t else 3, "route": route}, budget_s=900 if t else 100, label=f"construct:route{route}"))
    for k in range(0, 4):
        for cs in (False, True):
            js.append(Job(__name__, "h_join", shard={"n_items": k, "chunk_sep": cs, "maxlen": 2 if t else 1, "ncols": 3 if t else 2},
                          budget_s=900 if t else 80, label=f"join:{k}{'c' if cs else 't'}"))
    if t:
        for lens in ([1, 2, 1, 2], [2, 1, 1, 1], [1, 1, 1, 1], [2, 2, 2, 2]):
            l = {"lens": lens, "cols": [1, 0, 2, 0]}
            js.append(Job(__name__, "h_slice", shard=l, budget_s=400, label=f"slice:{''.join(map(str, lens))}/1020"))
    return js
