"""C11 - pretty-printed JSON-like data reads back as the same data (XH-driven enumeration + native length sweeps).

Container skeleton, nesting offset and mode are z3 choice variables; string lengths are swept natively inside each path
over EVERY length around the one-line (200) and per-line (150) thresholds, so that "offset + length" meets the
thresholds at every depth by construction of the sweep, not by a literal.  Read-back uses json.loads / ast.literal_eval
(C code: concrete by nature).
"""
from __future__ import annotations

import ast
import json
from typing import Any, List

from vf.core import Job
from vf.xh import Violation, concrete, realize, reject_unless

PROPERTY_ID = "C11"
FUNCTIONS = ["ak.ppobj.PrettyPrinter.__call__", "ak.ppobj.PrettyPrinter._gen_ch_lines", "ak.ppobj.PrettyPrinter._gen_ch_chunks_for_obj", "ak.ppobj.PrettyPrinter._simple_val_to_ch_chunk",
             "ak.ppobj.PrettyPrinter._dict_key_to_sc_chunk", "ak.ppobj.PrettyPrinter._mk_type_sort_value", "ak.ppobj.PrettyPrinter._all_values_are_simple",
             "ak.ppobj.PrettyPrinter._value_is_simple", "ak.ppobj._PrettyPrinterTextGen.make_ch_text", "ak.ppobj.CHTextResult.__iter__"]
BOUNDS = {
    "quick": {"skeletons": "list / dict of 1-4 simple values, list of lists, dict of dicts/lists, mixed simple + nested, empty containers, each wrapped in 0-2 outer dicts/lists (nesting offsets 0, 2, 4)",
              "lengths": "string elements/keys: every length 0..215 for one varying element (others fixed), pairs from threshold-adjacent lengths; long lists of 30-60 elements with lengths 0..12 (per-line wrap)",
              "values": "str (no quote/backslash/control characters), ints incl. negative and large, floats from a fixed finite set, True/False/None"},
}
BOUNDS["thorough"] = dict(BOUNDS["quick"], lengths="as quick + every pair of lengths 0..215 x 0..215 for 2-element containers")
OUTSIDE = ["nan/inf", "non-str dict keys in JSON mode", "tuples (printed as lists: not equal after read-back)", "strings with quotes, backslashes or control characters"]
STUBS = []
ASSUMPTIONS = ["json.loads / ast.literal_eval are the reference readers"]


def classify(record) -> str:
    return (record.get("message") or "").split("::")[0].strip()[:60] or "c11"


def check_value(value, what: str = "") -> None:
    from ak.ppobj import PrettyPrinter
    for fmt_json in (True, False):
        pp = PrettyPrinter(fmt_json=fmt_json)
        res = pp(value, no_color=True)
        text = res.plain_text()
        if "\033" in text:
            raise Violation(f"escape :: {what}: no_color output contains an escape character")
        by_line = "\n".join(l.plain_text() for l in pp(value, no_color=True))
        if by_line != text:
            raise Violation(f"lines :: {what}: line-by-line iteration differs from the whole text")
        collected = list(pp(value, no_color=True))          # all lines taken first, read afterwards
        if "\n".join(l.plain_text() for l in collected) != text:
            raise Violation(f"lines-collected :: {what}: the lines collected into a list first and read afterwards differ from the whole text")
        try:
            back = json.loads(text) if fmt_json else ast.literal_eval(text)
        except Exception as e:  # noqa
            raise Violation(f"unreadable :: {what}: {'JSON' if fmt_json else 'Python'}-mode output does not parse ({type(e).__name__}: {e}):\n{text[:600]}")
        if back != value or _types(back) != _types(value):
            raise Violation(f"differs :: {what}: {'JSON' if fmt_json else 'Python'}-mode output reads back as a different value:\n{text[:600]}")
        # dict entries in sorted key order (as printed): the reader preserves the printed order
        _check_order(back, what, fmt_json)
        colored = str(pp(value))
        from ak.color import CHText
        if CHText.strip_colors(colored) != text:
            raise Violation(f"colors-change-layout :: {what}: colored output with sequences removed differs from the no_color output")


def _types(v):
    if isinstance(v, dict):
        return {k: _types(x) for k, x in v.items()}
    if isinstance(v, list):
        return [_types(x) for x in v]
    return type(v).__name__


def _check_order(v, what, fmt_json):
    if isinstance(v, dict):
        keys = list(v.keys())

        def sk(k):
            if k is True or k is False or k is None:
                return (3, str(k))
            if isinstance(k, (int, float)):
                return (0, k)
            if isinstance(k, str):
                return (1, k)
            return (3, str(k))
        if keys != sorted(keys, key=sk):
            raise Violation(f"order :: {what}: dict entries are not printed in sorted key order: {keys[:8]}")
        for x in v.values():
            _check_order(x, what, fmt_json)
    elif isinstance(v, list):
        for x in v:
            _check_order(x, what, fmt_json)


def _wrap(value, depth: int, kind: int):
    for d in range(depth):
        value = {"w": value} if (kind + d) % 2 == 0 else [value]
    return value


SIMPLE = [0, -17, 123456789012345678901234567890, 1.5, -0.25, 1e-07, True, False, None, "", "x y", "ü€", "with 'single' quotes", {}, []]


def _skeleton(kind: int, s: str, s2: str):
    """skeleton kinds with one or two variable strings"""
    if kind == 0:
        return [s]
    if kind == 1:
        return {"k": s}
    if kind == 2:
        return {s: 1}
    if kind == 3:
        return [s, s2]
    if kind == 4:
        return {"a": s, "b": s2}
    if kind == 5:
        return [s, 7, None, s2]
    if kind == 6:
        return [[s], {"k": s2}]
    if kind == 7:
        return {"a": [s, s2], "b": {}, "c": []}
    if kind == 8:
        return {"k" + s: s2, "a": True}
    if kind == 9:
        return [s, [s2, [s]], {}]
    raise ValueError(kind)


N_KINDS = 10


def h_lengths(kind: int, depth: int, wrapkind: int, shard=None) -> None:
    reject_unless(0 <= kind < N_KINDS and 0 <= depth <= 2 and 0 <= wrapkind <= 1)
    if depth == 0:
        reject_unless(wrapkind == 0)
    kind, depth, wrapkind = realize(kind), realize(depth), realize(wrapkind)
    lo, hi = shard["range"]
    second = shard["second"]
    with concrete():
        from vf.xh import sweep_should_stop
        for n in range(lo, hi + 1):
            if sweep_should_stop():
                return
            for m in second:
                v = _wrap(_skeleton(kind, "a" * n, "b" * m), depth, wrapkind)
                check_value(v, f"skeleton {kind} at depth {depth} lengths ({n},{m})")


def h_pairs(kind: int, depth: int, shard=None) -> None:
    reject_unless(kind in (3, 4, 6, 7, 8) and 0 <= depth <= 2)
    kind, depth = realize(kind), realize(depth)
    with concrete():
        from vf.xh import sweep_should_stop
        for n in shard["ns"]:
            if sweep_should_stop():
                return
            for m in shard["ms"]:
                check_value(_wrap(_skeleton(kind, "a" * n, "b" * m), depth, 0), f"skeleton {kind} at depth {depth} lengths ({n},{m})")


def h_long_lists(count: int, depth: int, kind: int, shard=None) -> None:
    """long lists of simple values: per-line wrapping at 150"""
    reject_unless(shard["counts"][0] <= count <= shard["counts"][1] and 0 <= depth <= 2 and 0 <= kind <= 2)
    count, depth, kind = realize(count), realize(depth), realize(kind)
    with concrete():
        for ln in range(0, 13):
            if kind == 0:
                v: Any = ["s" * ln for _ in range(count)]
            elif kind == 1:
                v = [(10 ** ln + i) * (-1 if i % 3 == 0 else 1) for i in range(count)]
            else:
                v = [("s" * ((ln + i) % 13) if i % 2 else SIMPLE[i % 9]) for i in range(count)]
            check_value(_wrap(v, depth, 0), f"long list of {count} elements, element length {ln}, kind {kind}, depth {depth}")
            d = {("k%03d" % i) + "x" * ln: (i if i % 2 else "v" * ln) for i in range(count)}
            check_value(_wrap(d, depth, 1), f"long dict of {count} entries, length {ln}, depth {depth}")


def h_simple_mix(i0: int, i1: int, i2: int, depth: int, as_dict: bool, shard=None) -> None:
    """all triples of simple values (ints, floats, keywords, strings, empty containers) in a list / as dict values"""
    n = len(SIMPLE)
    reject_unless(0 <= i0 < n and 0 <= i1 < n and 0 <= depth <= 1)
    reject_unless(i2 == 0)
    i0, i1, depth, as_dict = realize(i0), realize(i1), realize(depth), realize(as_dict)
    with concrete():
        for i2 in range(n):
            vals = [SIMPLE[i0], SIMPLE[i1], SIMPLE[i2]]
            v: Any = {"a": vals[0], "b": vals[1], "c": vals[2]} if as_dict else vals
            check_value(_wrap(v, depth, 0), f"simple values {vals!r} as {'dict' if as_dict else 'list'} depth {depth}")
        if as_dict:
            # keys one of which is a prefix of another, continued by characters that sort below / above the closing quote
            tricky = ["name", "name 2", "name!", "nam", "name_x", "Name", "10", "9", "name#", ""]
            d2 = {k: SIMPLE[(i0 + j) % n] if j % 2 else SIMPLE[(i1 + j) % n] for j, k in enumerate(tricky)}
            check_value(_wrap(d2, depth, 0), f"dict with keys {tricky} depth {depth}")
            check_value(_wrap({"k": d2, "k 1": [d2]}, depth, 0), f"nested dicts with keys {tricky} depth {depth}")
        if not as_dict:
            # python mode only: non-str keys
            from ak.ppobj import PrettyPrinter
            d = {1: SIMPLE[i0], "1": SIMPLE[i1], 2.5: "x", True if False else 3: None}
            text = PrettyPrinter()(d, no_color=True).plain_text()
            try:
                back = ast.literal_eval(text)
            except Exception as e:  # noqa
                raise Violation(f"unreadable :: python-mode output for non-str keys does not parse: {e}: {text}")
            if back != d:
                raise Violation(f"differs :: python-mode output for {d!r} reads back as {back!r}")


def jobs(tier: str) -> List[Job]:
    t = tier == "thorough"
    js = []
    js.append(Job(__name__, "h_lengths", shard={"range": [0, 215], "second": [0, 3]}, budget_s=1200 if t else 110, label="lengths:0..215", must_exhaust=True))
    near = [0, 1, 40, 90, 97, 98, 99, 100, 140, 147, 148, 149, 150, 151, 185, 190, 191, 192, 193, 194, 195, 196, 197, 198, 199, 200, 201, 210]
    js.append(Job(__name__, "h_pairs", shard={"ns": near, "ms": near}, budget_s=1200 if t else 110, label="pairs:threshold-adjacent", must_exhaust=True))
    if t:
        js.append(Job(__name__, "h_pairs", shard={"ns": list(range(0, 216)), "ms": list(range(0, 216, 1))}, budget_s=3000, label="pairs:all-0..215"))
    for lo, hi in ((1, 12), (13, 24), (25, 36), (37, 48), (49, 60)) if not t else ((1, 20), (21, 40), (41, 60), (61, 80), (81, 100)):
        js.append(Job(__name__, "h_long_lists", shard={"counts": [lo, hi]}, budget_s=1500 if t else 110, label=f"long-lists:{lo}..{hi}", must_exhaust=True))
    js.append(Job(__name__, "h_simple_mix", shard={}, budget_s=1200 if t else 110, label="simple-mix", must_exhaust=True))
    return js
