"""C15 - SQL filters select exactly the intended rows; values are always bound (XH + mini evaluator; sqlite replay).

Shape of the condition tree is concrete per shard; operand values and the cells of the table are symbolic
(Optional[int] for the integer column, Optional[short str] for the text column).  WHERE is a per-row predicate, so
"rows returned == rows where the intended tree is TRUE" is checked on a symbolic table of two rows, through the real
SqlMethod.list with a stub DB-API connection whose cursor evaluates the emitted statement with a mini evaluator for
exactly the fragment this module can emit (SQL three-valued logic).  The evaluator is cross-checked against real
sqlite3 on the realised values of every path's sample and every counterexample is replayed on real sqlite3.
"""
from __future__ import annotations

import sqlite3
from typing import Any, List, Optional

from vf.core import Job
from vf.xh import Violation, concrete, realize, reject_unless

PROPERTY_ID = "C15"
FUNCTIONS = ["ak.mtd_sql.SqlFilterCondition.make", "ak.mtd_sql.SqlFieldValCondition.__init__", "ak.mtd_sql.SqlFieldValCondition.make_text_update_values",
             "ak.mtd_sql.SqlOrCondition.__init__", "ak.mtd_sql.SqlOrCondition.make_text_update_values", "ak.mtd_sql.SqlMethod._execute",
             "ak.mtd_sql.SqlMethod._init_record_type", "ak.mtd_sql.SqlMethod.list", "ak.mtd_sql.SqlMethod.all", "ak.mtd_sql.SqlMethod.one",
             "ak.mtd_sql.SqlMethod.one_or_none"]
BOUNDS = {
    "quick": {"special": "string operands/cells also from 12 SQL look-alike strings (IS NULL, NULL, ?, %, quotes, ...)", "shapes": "48 condition-tree shapes: 1-3 top-level filters from comparisons (6 operators), IN/NOT IN/=/!= with list, tuple, set of 0..2 values, NULL tests, '='/'!=' None, "
                        "LIKE/NOT LIKE, OR-groups of 0..2 operands (incl. nested IN and kwargs form), ignored None arguments, keyword filters, 2-item tuples, static text",
              "values": "int operands and integer cells: ALL ints or NULL (symbolic); text operands/cells: NULL or ANY string of length <= 2 (symbolic characters: quotes, wildcards, anything)", "table": "2 symbolic rows (1 symbolic row for shapes that involve the text column: WHERE is a per-row predicate)"},
}
BOUNDS["thorough"] = dict(BOUNDS["quick"], table="3 symbolic rows (2 for text-column shapes)", values=BOUNDS["quick"]["values"].replace("<= 2", "<= 3"))
OUTSIDE = ["'='/'!=' with a set operand (not normalised by the module; unsupported input)", "cross-type comparisons (int column vs text operand)",
           "GROUP BY / ORDER BY text (passed through verbatim)", "the mysql '%s' placeholder flavour beyond text/parameter-count assertions", "LIKE with ESCAPE"]
STUBS = ["DB-API connection/cursor: records (sql, params), evaluates the WHERE clause with a mini evaluator (model of SQLite for the emitted fragment: 3VL, "
         "case-insensitive ASCII LIKE with % and _), validated against real sqlite3 on realised values"]
ASSUMPTIONS = ["sqlite3 is the reference for SQL semantics of the fragment"]

ALPH = "'%_aA;-"
MAXLEN = [2]


def classify(record) -> str:
    return (record.get("message") or "").split("::")[0].strip()[:60] or "c15"


# ---------------------------------------------------------------------------------------------------
# 3VL helpers (None == UNKNOWN)
# ---------------------------------------------------------------------------------------------------
def t_and(x, y):
    if x is False or y is False:
        return False
    if x is None or y is None:
        return None
    return True


def t_or(x, y):
    if x is True or y is True:
        return True
    if x is None or y is None:
        return None
    return False


def t_not(x):
    return None if x is None else (not x)


def like(s, p) -> Optional[bool]:
    """SQLite LIKE: % any sequence, _ any one character, ASCII case-insensitive"""
    if s is None or p is None:
        return None
    return _like(s, 0, p, 0)


def _lower(c):
    o = ord(c)
    if 65 <= o <= 90:
        o = o + 32
    return o


def _like(s, i, p, j) -> bool:
    while j < len(p):
        pc = p[j]
        if pc == "%":
            k = i
            while True:
                if _like(s, k, p, j + 1):
                    return True
                if k >= len(s):
                    return False
                k += 1
        if i >= len(s):
            return False
        if pc != "_" and _lower(pc) != _lower(s[i]):
            return False
        i += 1
        j += 1
    return i == len(s)


def cmp3(op, x, y) -> Optional[bool]:
    if x is None or y is None:
        return None
    if op == "=":
        return x == y
    if op == "!=":
        return x != y
    if op == ">":
        return x > y
    if op == "<":
        return x < y
    if op == ">=":
        return x >= y
    if op == "<=":
        return x <= y
    raise ValueError(op)


def in3(x, vals) -> Optional[bool]:
    if not vals:
        return False
    res: Optional[bool] = False
    for v in vals:
        res = t_or(res, cmp3("=", x, v))
    return res


# ---------------------------------------------------------------------------------------------------
# mini evaluator for the emitted WHERE fragment
# ---------------------------------------------------------------------------------------------------
class SqlEvalError(Exception):
    pass


def _tokenize(sql: str) -> List[str]:
    toks = []
    i = 0
    while i < len(sql):
        c = sql[i]
        if c == " ":
            i += 1
        elif c in "(),?":
            toks.append(c)
            i += 1
        elif c in "=<>!":
            if sql[i:i + 2] in ("!=", ">=", "<=", "<>"):
                toks.append(sql[i:i + 2])
                i += 2
            else:
                toks.append(c)
                i += 1
        elif c == "%" and sql[i:i + 2] == "%s":
            toks.append("?")
            i += 2
        elif c.isalnum() or c in "._":
            j = i
            while j < len(sql) and (sql[j].isalnum() or sql[j] in "._"):
                j += 1
            toks.append(sql[i:j])
            i = j
        else:
            raise SqlEvalError(f"unexpected character {c!r} in emitted SQL {sql!r}")
    return toks


class _Parser:
    def __init__(self, toks, params, row):
        self.t = toks
        self.i = 0
        self.params = list(params)
        self.pi = 0
        self.row = row

    def peek(self):
        return self.t[self.i] if self.i < len(self.t) else None

    def up(self):
        x = self.peek()
        return x.upper() if isinstance(x, str) else x

    def eat(self, tok=None):
        x = self.peek()
        if x is None or (tok is not None and x.upper() != tok):
            raise SqlEvalError(f"expected {tok}, got {x} in {self.t}")
        self.i += 1
        return x

    def expr_or(self):
        v = self.expr_and()
        while self.up() == "OR":
            self.eat()
            v = t_or(v, self.expr_and())
        return v

    def expr_and(self):
        v = self.atom()
        while self.up() == "AND":
            self.eat()
            v = t_and(v, self.atom())
        return v

    def value(self):
        x = self.eat()
        if x == "?":
            if self.pi >= len(self.params):
                raise SqlEvalError("more placeholders than parameters")
            v = self.params[self.pi]
            self.pi += 1
            return v
        if x.upper() == "NULL":
            return None
        if x.isdigit():
            return int(x)
        name = x.split(".")[-1]
        if name in self.row:
            return self.row[name]
        raise SqlEvalError(f"unknown operand {x}")

    def atom(self):
        if self.peek() == "(":
            self.eat()
            v = self.expr_or()
            self.eat(")")
            return v
        up = self.up()
        if up == "FALSE":
            self.eat()
            return False
        if up == "TRUE":
            self.eat()
            return True
        if up == "NOT":
            self.eat()
            return t_not(self.atom())
        # literal 0 / 1 standing alone
        if up in ("0", "1") and (self.i + 1 >= len(self.t) or self.t[self.i + 1].upper() in ("AND", "OR", ")")):
            self.eat()
            return up == "1"
        lhs = self.value()
        up = self.up()
        if up in ("=", "!=", "<>", ">", "<", ">=", "<="):
            op = self.eat()
            rhs = self.value()
            return cmp3("!=" if op == "<>" else op, lhs, rhs)
        neg = False
        if up == "NOT":
            self.eat()
            neg = True
            up = self.up()
        if up == "IN":
            self.eat()
            self.eat("(")
            vals = []
            if self.peek() != ")":
                vals.append(self.value())
                while self.peek() == ",":
                    self.eat()
                    vals.append(self.value())
            self.eat(")")
            r = in3(lhs, vals)
            return t_not(r) if neg else r
        if up == "LIKE":
            self.eat()
            r = like(lhs, self.value())
            return t_not(r) if neg else r
        if up == "IS" and not neg:
            self.eat()
            n2 = False
            if self.up() == "NOT":
                self.eat()
                n2 = True
            self.eat("NULL")
            return (lhs is not None) if n2 else (lhs is None)
        raise SqlEvalError(f"cannot parse at token {self.peek()} in {self.t}")


def eval_where(sql: str, params, row) -> Optional[bool]:
    up = sql.upper()
    if " WHERE " not in up:
        return True
    w = sql[up.index(" WHERE ") + 7:]
    for kw in (" GROUP BY ", " ORDER BY "):
        if kw in w.upper():
            w = w[:w.upper().index(kw)]
    p = _Parser(_tokenize(w), params, row)
    v = p.expr_or()
    if p.peek() is not None:
        raise SqlEvalError(f"trailing tokens {p.t[p.i:]}")
    if p.pi != len(p.params):
        raise SqlEvalError(f"{len(p.params)} parameters for {p.pi} placeholders")
    return v


# ---------------------------------------------------------------------------------------------------
# stub connection
# ---------------------------------------------------------------------------------------------------
class StubCursor:
    def __init__(self, conn):
        self.conn = conn
        self.description = [("id",), ("a",), ("b",)]
        self._rows: List[Any] = []

    def execute(self, sql, params=()):
        self.conn.calls.append((sql, list(params)))
        out = []
        try:
            for r in self.conn.rows:
                if eval_where(sql, params, {"id": r[0], "a": r[1], "b": r[2]}) is True:
                    out.append(r)
        except TypeError:
            # a bound value of another type than the column (only concrete values get here): outside the evaluator's
            # fragment - ask real sqlite3
            from crosshair.core import deep_realize
            crows = [tuple(deep_realize(x) for x in r) for r in self.conn.rows]
            db = sqlite3.connect(":memory:")
            db.execute("CREATE TABLE t (id INTEGER, a INTEGER, b TEXT)")
            db.executemany("INSERT INTO t VALUES (?, ?, ?)", crows)
            out = [tuple(r) for r in db.execute(deep_realize(sql), [deep_realize(x) for x in params])]
            db.close()
        self._rows = out

    def __iter__(self):
        return iter(self._rows)

    def close(self):
        self.conn.closed += 1


class StubConn:
    def __init__(self, rows):
        self.rows = rows
        self.calls: List[Any] = []
        self.closed = 0

    def cursor(self):
        return StubCursor(self)


# ---------------------------------------------------------------------------------------------------
# shapes
# ---------------------------------------------------------------------------------------------------
# a spec item is a tuple; holes are filled from the pools of symbolic values in order
#   ("cmp", col, op)            one hole (col type)
#   ("cmpn", col, op)           value None  ('=' / '!=' with None)
#   ("in", col, op, ctype, n)   n holes
#   ("null", col, op)
#   ("like", op)                one str hole (column b)
#   ("or", [items])
#   ("none",)
#   ("kw", col)                 keyword filter col=hole
#   ("kwn", col)                keyword filter col=None
#   ("two", col)                ("col", hole) two-item form
#   ("static", text, pyfunc-id)
SHAPES = [
    [("cmp", "a", "=")], [("cmp", "a", "!=")], [("cmp", "a", ">")], [("cmp", "a", "<=")], [("cmp", "b", "=")], [("cmp", "b", "<")],
    [("cmpn", "a", "=")], [("cmpn", "b", "!=")],
    [("in", "a", "IN", "list", 0)], [("in", "a", "NOT IN", "list", 0)], [("in", "a", "IN", "list", 2)], [("in", "a", "NOT IN", "tuple", 2)],
    [("in", "a", "=", "list", 2)], [("in", "a", "!=", "tuple", 1)], [("in", "a", "=", "list", 0)], [("in", "a", "!=", "list", 0)],
    [("in", "b", "in", "set", 1)], [("in", "a", "not in", "set", 0)], [("in", "b", "IN", "tuple", 2)],
    [("null", "a", "IS NULL")], [("null", "b", "is not null")],
    [("like", "LIKE")], [("like", "NOT LIKE")], [("like", "like")],
    [("or", [])], [("or", [("cmp", "a", "=")])], [("or", [("cmp", "a", "<"), ("cmp", "b", "=")])], [("or", [("cmpn", "a", "="), ("in", "a", "IN", "list", 1)])],
    [("none",)], [("none",), ("cmp", "a", ">="), ("none",)],
    [("kw", "a")], [("kw", "b"), ("kw", "a")], [("kwn", "b")], [("two", "a")],
    [("cmp", "a", ">"), ("cmp", "a", "<")], [("cmp", "b", "="), ("or", [("cmp", "a", "="), ("cmp", "a", ">")])],
    [("or", [("cmp", "a", "="), ("cmp", "b", "=")]), ("cmp", "a", "!=")], [("or", [("in", "a", "IN", "list", 0), ("like", "LIKE")]), ("null", "b", "IS NOT NULL")],
    [("static", "a = id"), ("cmp", "a", ">")], [("or", [("static", "a = id"), ("cmpn", "b", "=")])],
    [("or", [("cmp", "b", "="), ("cmp", "a", "<")])], [("or", [("cmp", "b", "<"), ("in", "a", "IN", "list", 1)]), ("cmp", "a", ">=")],
    [("or", [("cmp", "a", ">"), ("cmp", "a", "=")])],
    [("or", [("kwn", "a"), ("cmp", "b", "=")])], [("or", [("kw", "a"), ("kwn", "b")]), ("cmp", "a", "<")], [("or", [("kwn", "a")])],
    [("in", "a", "IN", "list", 1), ("like", "NOT LIKE"), ("kw", "a")], [("or", [("or", [("cmp", "a", "<")]), ("cmp", "a", ">")]), ("kwn", "a")],
]


class _Pools:
    """holes are (is_null, value) pairs consulted lazily, so that holes a shape does not use never fork a path"""

    def __init__(self, ints, strs):
        self.ints = list(ints)
        self.strs = list(strs)
        self.taken_ints: List[Any] = []
        self.taken_strs: List[Any] = []

    @staticmethod
    def _val(pair):
        if not isinstance(pair, tuple):
            return pair
        isnull, v = pair
        if isnull:
            return None
        if isinstance(v, str):
            reject_unless(len(v) <= MAXLEN[0])
            for ch in v:
                reject_unless(ch != "\x00")      # sqlite3 treats TEXT as NUL-terminated in LIKE: outside the claim
        return v

    def take(self, col):
        if col == "a":
            v = self._val(self.ints.pop(0))
            self.taken_ints.append(v)
        else:
            v = self._val(self.strs.pop(0))
            self.taken_strs.append(v)
        return v


def _build(items, pools, kw):
    """-> (list of positional filter args, intended predicate list)"""
    from ak.mtd_sql import SqlMethod
    args = []
    preds = []
    for it in items:
        kind = it[0]
        if kind == "cmp":
            _, col, op = it
            v = pools.take(col)
            args.append((col, op, v))
            if v is None and op in ("=", "!="):
                preds.append((lambda r, col=col, neg=(op == "!="): (r[col] is not None) if neg else (r[col] is None)))
            else:
                preds.append(lambda r, col=col, op=op, v=v: cmp3(op, r[col], v))
        elif kind == "cmpn":
            _, col, op = it
            args.append((col, op, None))
            preds.append((lambda r, col=col, neg=(op == "!="): (r[col] is not None) if neg else (r[col] is None)))
        elif kind == "in":
            _, col, op, ctype, n = it
            vals = [pools.take(col) for _ in range(n)]
            cont = {"list": list, "tuple": tuple, "set": set}[ctype](vals)
            args.append((col, op, cont))
            neg = op.upper() in ("NOT IN", "!=")
            preds.append(lambda r, col=col, vals=vals, neg=neg: (t_not(in3(r[col], vals)) if neg else in3(r[col], vals)))
        elif kind == "null":
            _, col, op = it
            args.append((col, op, None))
            preds.append(lambda r, col=col, neg=("NOT" in op.upper()): (r[col] is not None) if neg else (r[col] is None))
        elif kind == "like":
            op = it[1]
            v = pools.take("b")
            reject_unless(v is not None)
            args.append(("b", op, v))
            preds.append(lambda r, v=v, neg=("NOT" in op.upper()): (t_not(like(r["b"], v)) if neg else like(r["b"], v)))
        elif kind == "or":
            sub_kw: dict = {}
            sub_args, sub_preds = _build(it[1], pools, sub_kw)
            # operands of an OR group may be given in keyword form as well (incl. col=None, which means IS NULL)
            args.append(SqlMethod._or(*sub_args, **sub_kw))

            def orp(r, sub_preds=sub_preds):
                res: Optional[bool] = False
                for p in sub_preds:
                    res = t_or(res, p(r))
                return res
            preds.append(orp)
        elif kind == "none":
            args.append(None)
        elif kind in ("kw", "kwn"):
            col = it[1]
            v = pools.take(col) if kind == "kw" else None
            kw[col] = v
            preds.append(lambda r, col=col, v=v: (r[col] is None) if v is None else cmp3("=", r[col], v))
        elif kind == "two":
            col = it[1]
            v = pools.take(col)
            args.append((col, v))
            preds.append(lambda r, col=col, v=v: (r[col] is None) if v is None else cmp3("=", r[col], v))
        elif kind == "static":
            args.append(it[1])
            preds.append(lambda r: cmp3("=", r["a"], r["id"]))
        else:
            raise ValueError(kind)
    return args, preds


def _cols_used(items):
    out = set()
    for it in items:
        if it[0] == "or":
            out |= _cols_used(it[1])
        elif it[0] == "like":
            out.add("b")
        elif it[0] == "static":
            out.add("a")
        elif it[0] != "none":
            out.add(it[1])
    return out


def _check_str(s):
    if s is None:
        return
    reject_unless(len(s) <= MAXLEN[0])


def _ref_text(shape_idx: int, ints=(1, 1, 1), strs=(1, 1)):
    """SQL text for a reference assignment of the same shape and the same NULL pattern (values never become part of
    the text; only whether a value is NULL may legitimately change it: '= NULL' is written IS NULL)"""
    from ak.mtd_sql import SqlMethod
    pools = _Pools([None if x is None else 101 + k for k, x in enumerate(ints)], [None if x is None else "r%d" % k for k, x in enumerate(strs)])
    kw = {}
    args, _ = _build(SHAPES[shape_idx], pools, kw)
    conn = StubConn([])
    SqlMethod("SELECT id, a, b FROM t", order_by="id").list(conn, *args, **kw)
    return conn.calls[0][0]


def _flatten_values(args, kw):
    """values in the left-to-right order of their placeholders (sets excluded by the caller when order matters)"""
    out = []

    def walk(a):
        from ak.mtd_sql import SqlOrCondition
        if a is None or isinstance(a, str):
            return
        if isinstance(a, SqlOrCondition):
            for o in a.operands:
                out_cond(o)
            return
        if len(a) == 2:
            col, v = a
            op = "="
        else:
            col, op, v = a
        if isinstance(v, (list, tuple, set)):
            out.extend(list(v))
        elif v is None and op.upper() in ("=", "!=", "IS NULL", "IS NOT NULL"):
            return
        else:
            out.append(v)

    def out_cond(o):
        from ak.mtd_sql import SqlOrCondition
        if isinstance(o, SqlOrCondition):
            for x in o.operands:
                out_cond(x)
            return
        if o.field_name is None:
            return
        v = o.value
        if isinstance(v, (list, tuple, set)):
            out.extend(list(v))
        elif o.op in ("IS NULL", "IS NOT NULL"):
            return
        else:
            out.append(v)
    for a in args:
        walk(a)
    for k in sorted(kw):
        if kw[k] is not None:
            out.append(kw[k])
    return out


def h_filter(i0: int, i1: int, i2: int, in0: bool, in1: bool, in2: bool, s0: str, s1: str, sn0: bool, sn1: bool,
             a0: int, a1: int, a2: int, an0: bool, an1: bool, an2: bool, b0: str, b1: str, b2: str, bn0: bool, bn1: bool, bn2: bool, shard=None) -> None:
    from ak.mtd_sql import SqlMethod
    nrows = shard.get("rows", 2)
    shape = SHAPES[shard["shape"]]
    cols_used = _cols_used(shape)
    rows = []
    for k, (a, an, b, bn) in enumerate([(a0, an0, b0, bn0), (a1, an1, b1, bn1), (a2, an2, b2, bn2)][:nrows]):
        av = _Pools._val((an, a)) if "a" in cols_used else k          # columns the conditions never look at are not symbolic
        bv = _Pools._val((bn, b)) if "b" in cols_used else "c%d" % k
        rows.append((k + 1, av, bv))
    pools = _Pools([(in0, i0), (in1, i1), (in2, i2)], [(sn0, s0), (sn1, s1)])
    kw: dict = {}
    try:
        args, preds = _build(shape, pools, kw)
    except IndexError:
        raise RuntimeError("harness: shape needs more holes than the pools provide")
    conn = StubConn(rows)
    m = SqlMethod("SELECT id, a, b FROM t", order_by="id")
    try:
        got = m.list(conn, *args, **kw)
    except SqlEvalError as e:
        raise Violation(f"bad-sql :: emitted statement is outside the module's own fragment or has mismatched parameters: {e}")
    sql, params = conn.calls[0]
    # (1) values are bound: text equals the text for a reference assignment, one placeholder per value, in order
    ref = _ref_text(shard["shape"], pools.taken_ints + [1, 1, 1], pools.taken_strs + [1, 1])
    if sql != ref:
        raise Violation(f"text-depends-on-values :: SQL text {sql!r} differs from the text for other values {ref!r}")
    if sql.count("?") != len(params):
        raise Violation(f"placeholders :: {sql.count('?')} placeholders for {len(params)} parameters in {sql!r}")
    has_set = any(x[0] == "in" and x[3] == "set" and x[4] > 1 for x in shape)
    want_params = _flatten_values(args, kw)
    if not has_set:
        if len(params) != len(want_params) or any(not _same_val(p, w) for p, w in zip(params, want_params)):
            raise Violation(f"param-order :: parameters {params!r} are not the condition values in order {want_params!r}")
    # (2) rows returned == rows for which all intended conditions are TRUE, in order
    exp = []
    for r in rows:
        d = {"id": r[0], "a": r[1], "b": r[2]}
        ok: Optional[bool] = True
        for p in preds:
            ok = t_and(ok, p(d))
        if ok is True:
            exp.append(r)
    got_t = [tuple(x) for x in got]
    if len(got_t) != len(exp) or any(not _same_row(g, e) for g, e in zip(got_t, exp)):
        raise Violation(f"wrong-rows :: {sql!r} with {params!r} over {rows!r} returned {got_t!r}, intended {exp!r}")
    if conn.closed != 1:
        raise Violation("cursor-not-closed :: cursor was not closed exactly once")


# strings that look like SQL: they must be treated as data whatever form of condition carries them
SPECIAL = ["IS NULL", "is not null", "NULL", "?", "%", "_", "'", "a' OR '1'='1", "1", "", "a", "A"]


def _special_args(k0: int, k1: int):
    s0, s1 = SPECIAL[k0], SPECIAL[k1]
    return dict(i0=1, i1=2, i2=3, in0=False, in1=False, in2=False, s0=s0, s1=s1, sn0=False, sn1=False,
                a0=1, a1=2, a2=3, an0=False, an1=False, an2=True, b0=s0, b1=s1, b2="zz", bn0=False, bn1=False, bn2=True)


def h_filter_special(k0: int, k1: int, shard=None) -> None:
    """the string operands and cells are taken from SPECIAL (SQL look-alikes) instead of symbolic short strings"""
    reject_unless(0 <= k0 < len(SPECIAL) and 0 <= k1 < len(SPECIAL))
    k0, k1 = realize(k0), realize(k1)
    old = MAXLEN[0]
    MAXLEN[0] = 99
    try:
        h_filter(shard=shard, **_special_args(k0, k1))
    finally:
        MAXLEN[0] = old


def replay_h_filter_special(record) -> Optional[str]:
    from vf.core import decode_args
    a = decode_args(record["args"])
    rec = dict(record)
    rec["args"] = _special_args(a["k0"], a["k1"])
    old = MAXLEN[0]
    MAXLEN[0] = 99
    try:
        return replay_h_filter(rec)
    finally:
        MAXLEN[0] = old


def _same_val(p, w) -> bool:
    if p is None or w is None:
        return p is None and w is None
    return type(p) is type(w) and p == w or (isinstance(p, (int, str)) and isinstance(w, (int, str)) and p == w)


def _same_row(g, e) -> bool:
    return len(g) == len(e) and all(_same_val(x, y) for x, y in zip(g, e))


def replay_h_filter(record) -> Optional[str]:
    """replay on real in-memory sqlite3: the same filters through SqlMethod.list against a real table"""
    from ak.mtd_sql import SqlMethod
    from vf.core import decode_args
    a = decode_args(record["args"])
    shard = record["fixed"]["shard"]
    nrows = shard.get("rows", 2)
    shape = SHAPES[shard["shape"]]
    cols_used = _cols_used(shape)
    rows = []
    for k in range(nrows):
        av = (None if a[f"an{k}"] else a[f"a{k}"]) if "a" in cols_used else k
        bv = (None if a[f"bn{k}"] else a[f"b{k}"]) if "b" in cols_used else "c%d" % k
        rows.append((k + 1, av, bv))
    pools = _Pools([(a["in0"], a["i0"]), (a["in1"], a["i1"]), (a["in2"], a["i2"])], [(a["sn0"], a["s0"]), (a["sn1"], a["s1"])])
    kw: dict = {}
    from vf.xh import Reject
    try:
        args, preds = _build(shape, pools, kw)
    except Reject:
        return None
    db = sqlite3.connect(":memory:")
    db.execute("CREATE TABLE t (id INTEGER, a INTEGER, b TEXT)")
    db.executemany("INSERT INTO t VALUES (?, ?, ?)", rows)
    seen = []
    db.set_trace_callback(seen.append)
    try:
        got = [tuple(x) for x in SqlMethod("SELECT id, a, b FROM t", order_by="id").list(db, *args, **kw)]
    except Exception as e:  # noqa
        return f"real sqlite3 raises {type(e).__name__}: {e}"
    exp = []
    for r in rows:
        d = {"id": r[0], "a": r[1], "b": r[2]}
        ok: Optional[bool] = True
        for p in preds:
            ok = t_and(ok, p(d))
        if ok is True:
            exp.append(r)
    if got != exp:
        return f"real sqlite3 returned {got!r}, intended {exp!r} (statement: {seen[-1] if seen else '?'})"
    # the text must not depend on the values either
    conn = StubConn(rows)
    SqlMethod("SELECT id, a, b FROM t", order_by="id").list(conn, *args, **kw)
    if conn.calls[0][0] != _ref_text(shard["shape"], pools.taken_ints + [1, 1, 1], pools.taken_strs + [1, 1]):
        return f"SQL text depends on the values: {conn.calls[0][0]!r}"
    if conn.calls[0][0].count("?") != len(conn.calls[0][1]):
        return "placeholder count differs from parameter count"
    return None


def h_evaluator_vs_sqlite(i0: int, i1: int, s0: str, a0: int, b0: str, nulls: int, shard=None) -> None:
    """validates the stub: the mini evaluator agrees with real sqlite3 on the realised values of each path (concolic)"""
    from ak.mtd_sql import SqlMethod
    from vf.xh import HarnessError
    reject_unless(-2 <= i0 <= 2 and -2 <= i1 <= 2 and -2 <= a0 <= 2 and 0 <= nulls < 32)
    reject_unless(len(s0) <= 2 and len(b0) <= 2)
    for ch in s0 + b0:
        reject_unless(ch in ALPH)
    nulls = realize(nulls)
    vals = [None if (nulls >> k) & 1 else realize(x) for k, x in enumerate((i0, i1, s0, a0, b0))]
    i0, i1, s0, a0, b0 = vals
    pools = _Pools([i0, i1, i0], [s0, s0])
    kw: dict = {}
    args, _ = _build(SHAPES[shard["shape"]], pools, kw)
    rows = [(1, a0, b0), (2, 1, "a"), (3, None, None)]
    conn = StubConn(rows)
    got = [tuple(x) for x in SqlMethod("SELECT id, a, b FROM t", order_by="id").list(conn, *args, **kw)]
    db = sqlite3.connect(":memory:")
    db.execute("CREATE TABLE t (id INTEGER, a INTEGER, b TEXT)")
    db.executemany("INSERT INTO t VALUES (?, ?, ?)", rows)
    real = [tuple(x) for x in SqlMethod("SELECT id, a, b FROM t", order_by="id").list(db, *args, **kw)]
    if real != got:
        raise HarnessError(f"STUB-MISMATCH: mini evaluator gives {got!r}, sqlite3 gives {real!r} for {conn.calls[0]}")


BLOBS = [b"ab", b"", b"a"]
BLOB_CELLS = [b"ab", b"", b"a", "ab", "", None]


def _blob_case(form, v, cells, real_db=None) -> Optional[str]:
    from ak.mtd_sql import SqlMethod
    rows = [(k + 1, k + 1, c) for k, c in enumerate(cells)]
    neg = form in (1, 5)
    args, kw = {0: ([("b", "=", v)], {}), 1: ([("b", "!=", v)], {}), 2: ([("b", v)], {}), 3: ([], {"b": v}),
                4: ([SqlMethod._or(("b", "=", v), ("a", "=", 77))], {}), 5: ([SqlMethod._or(("b", "!=", v), ("a", "=", 77))], {})}[form]
    what = f"filter {args!r} {kw!r} over {rows!r}"
    m = SqlMethod("SELECT id, a, b FROM t", order_by="id")
    exp = [r for r in rows if r[2] is not None and ((type(r[2]) is bytes and r[2] == v) != neg)]
    if real_db is not None:
        real_db.execute("DELETE FROM t")
        real_db.executemany("INSERT INTO t VALUES (?, ?, ?)", rows)
        try:
            got = [tuple(x) for x in m.list(real_db, *args, **kw)]
        except Exception as e:  # noqa
            return f"blob-raises :: {what} raises {type(e).__name__}: {e}"
        return None if got == exp else f"blob-wrong-rows :: {what} on sqlite3 returned {got!r}, intended {exp!r}"
    conn = StubConn(rows)
    try:
        got = [tuple(x) for x in m.list(conn, *args, **kw)]
    except SqlEvalError as e:
        return f"blob-bad-sql :: {what}: {e}"
    sql, params = conn.calls[0]
    blob_params = [p for p in params if isinstance(p, (bytes, bytearray))]
    if len(blob_params) != 1 or bytes(blob_params[0]) != v or sql.count("?") != len(params) or len(params) != (2 if form >= 4 else 1):
        return f"blob-not-bound-as-one-value :: {what}: statement {sql!r} with parameters {params!r}"
    if got != exp:
        return f"blob-wrong-rows :: {what}: {sql!r} with {params!r} returned {got!r}, intended {exp!r}"
    return None


def h_blob(form: int, vi: int) -> None:
    """a bytes operand (comparison against a BLOB column) is ONE value: bound to one placeholder as it is, and the rows returned are
    those whose cell equals / differs from it (a BLOB never equals a TEXT; NULL cells match neither '=' nor '!=').  Condition form
    (3-item '=' / '!=', 2-item, keyword, inside an OR group) and operand are choice variables; all 216 cell triples swept"""
    import itertools
    reject_unless(0 <= form < 6 and 0 <= vi < len(BLOBS))
    form, vi = realize(form), realize(vi)
    with concrete():
        for cells in itertools.product(BLOB_CELLS, repeat=3):
            err = _blob_case(form, BLOBS[vi], cells)
            if err:
                raise Violation(err)


def replay_h_blob(record) -> Optional[str]:
    """replay on real in-memory sqlite3"""
    import itertools
    from vf.core import decode_args
    a = decode_args(record["args"])
    db = sqlite3.connect(":memory:")
    db.execute("CREATE TABLE t (id, a, b)")
    for cells in itertools.product(BLOB_CELLS, repeat=3):
        err = _blob_case(a["form"], BLOBS[a["vi"]], cells, real_db=db)
        if err:
            return err
    return None


def h_one(a0: int, a1: int, an0: bool, an1: bool, v: int, shard=None) -> None:
    """one / one_or_none / all / _as_scalars / _order_by on top of the same filter machinery"""
    from ak.mtd_sql import SqlMethod
    rows = [(1, None if an0 else a0, "x"), (2, None if an1 else a1, "y")]
    exp = [r for r in rows if r[1] is not None and r[1] == v]
    m = SqlMethod("SELECT id, a, b FROM t")
    conn = StubConn(rows)
    try:
        r = m.one_or_none(conn, ("a", v))
        if len(exp) > 1:
            raise Violation("one_or_none :: several records selected but no ValueError")
        if (r is None) != (not exp) or (r is not None and tuple(r) != exp[0]):
            raise Violation(f"one_or_none :: returned {r!r}, intended {exp!r}")
    except ValueError:
        if len(exp) <= 1:
            raise Violation("one_or_none :: ValueError for at most one record")
    try:
        r = m.one(StubConn(rows), a=v)
        if len(exp) != 1 or tuple(r) != exp[0]:
            raise Violation(f"one :: returned {r!r}, intended exactly one of {exp!r}")
    except ValueError:
        if len(exp) == 1:
            raise Violation("one :: ValueError although exactly one record matches")
    conn = StubConn(rows)
    sc = list(m.all(conn, ("a", "=", v), _as_scalars=True, _order_by="id DESC"))
    if sc != [r[0] for r in exp]:
        raise Violation(f"as_scalars :: returned {sc!r}")
    if not conn.calls[0][0].endswith(" ORDER BY id DESC") or conn.calls[0][1] != [v]:
        raise Violation(f"order_by :: statement {conn.calls[0]!r}")
    # the order requested for the call wins over the method's default order; without a request the default applies
    md = SqlMethod("SELECT id, a, b FROM t", order_by="id")
    for req, want in ((None, " ORDER BY id"), ("a DESC, id", " ORDER BY a DESC, id"), ("id DESC", " ORDER BY id DESC")):
        conn = StubConn(rows)
        kw = {} if req is None else {"_order_by": req}
        list(md.all(conn, ("a", "=", v), **kw))
        if not conn.calls[0][0].endswith(want) or conn.calls[0][0].count("ORDER BY") != 1 or conn.calls[0][1] != [v]:
            raise Violation(f"order_by :: method with default order 'id' called with _order_by={req!r}: statement {conn.calls[0]!r}, expected it to end with {want!r}")


def jobs(tier: str) -> List[Job]:
    t = tier == "thorough"
    js: List[Job] = []
    for k in range(len(SHAPES)):
        heavy = "b" in _cols_used(SHAPES[k])
        js.append(Job(__name__, "h_filter", shard={"shape": k, "rows": (2 if heavy else 3) if t else (1 if heavy else 2)}, budget_s=900 if t else 60,
                      per_path_timeout=20, label=f"filter:shape{k}", must_exhaust=True))
    for k in range(len(SHAPES)):
        if t or k % 2 == 0:
            js.append(Job(__name__, "h_evaluator_vs_sqlite", shard={"shape": k}, budget_s=200 if t else 15, label=f"evaluator_vs_sqlite:shape{k}"))
    for k in range(len(SHAPES)):
        if "b" in _cols_used(SHAPES[k]):
            js.append(Job(__name__, "h_filter_special", shard={"shape": k, "rows": 3}, budget_s=300 if t else 40, label=f"filter-special-strings:shape{k}", must_exhaust=True))
    js.append(Job(__name__, "h_blob", budget_s=120, label="blob-operands", must_exhaust=True))
    js.append(Job(__name__, "h_one", shard={}, budget_s=120, label="one/one_or_none/all", must_exhaust=True))
    return js
