"""C17 - layered HTTP connections compose adapters without side effects (XH, recording opener).

Chains of wrappers, request arguments and short histories of derivations are symbolic choices enumerated by the
solver (structural property); each case runs the real connection classes against a recording opener and is compared
with a reference request builder written from the property statement.
"""
from __future__ import annotations

import base64
import copy
import json
from typing import Any, Dict, List, Optional
from urllib.parse import urlencode

from vf.core import Job
from vf.xh import Violation, concrete, realize, reject_unless

PROPERTY_ID = "C17"
FUNCTIONS = ["ak.conn_http.RequestArguments.__init__", "ak.conn_http._HttpConnImpl.do_request", "ak.conn_http._HttpConnBase.__init__",
             "ak.conn_http._HttpConnBase.add_adapter", "ak.conn_http._HttpConnBase.get", "ak.conn_http._HttpConnBase.post", "ak.conn_http._HttpConnBase.put",
             "ak.conn_http._HttpConnBase.delete", "ak.conn_http._HttpConnBase.patch", "ak.conn_http.HttpConn.__init__", "ak.conn_http.BAuthConn.__init__",
             "ak.conn_http.ClientAuthConn.__init__", "ak.conn_http.TokenAuthConn.__init__", "ak.conn_http.RequestAdapterAddPathPrefix.process_req_args",
             "ak.mcaller_http.MCallerHttp.__init__", "ak.mcaller_http.MCallerHttp.clone", "ak.mcaller_http.MCallerHttp.get_conn", "ak.mcaller_http.method_http"]
BOUNDS = {
    "quick": {"chains": "<= 3 wrappers from {path-prefix adapter (single / in a list / in a tuple), marker adapters, Basic, Client, Token auth, plain}, at most one authenticating layer",
              "arguments": "5 methods; path and prefixes from 6 slash/no-slash strings; params none/1/2 entries (with characters that need url-encoding); body none/str/bytes/dict/list/empty dict/0; "
                           "caller headers none / own Content-Type / own X-Request-ID", "histories": "<= 3 steps of derive / clone(adapter) / clone([adapters]) / add_adapter / wrapper-method calls"},
}
BOUNDS["thorough"] = BOUNDS["quick"]
OUTSIDE = ["two authenticating layers in one chain (trips the module's own assert)", "header names that differ only by case from the ones the module sets", "real network I/O, HTTP error responses",
           "exact number of slashes where a prefix and a path meet (compared modulo '//' -> '/')"]
STUBS = ["conn_impl.opener replaced by a recorder that keeps the urllib Request and returns a canned JSON body"]
ASSUMPTIONS = ["urllib.request.Request (stdlib) is trusted"]

STRS = ["", "a", "/a", "a/", "/a/", "/"]
PARAMS = [None, {"q": "x y"}, {"a": "1&2", "b": "ü/"}]
BODIES = [None, "text", b"\x00raw", {"k": [1, 2]}, ["x"], {}, 0, ""]
METHODS = ["get", "post", "put", "delete", "patch"]


def classify(record) -> str:
    return (record.get("message") or "").split("::")[0].strip()[:60] or "c17"


class _Resp:
    def __init__(self, method, body=b"[]"):
        self.data = body
        self._method = method
        self.code = 200

    def __enter__(self):
        return self

    def __exit__(self, *a):
        return False

    def read(self):
        return self.data

    def getheaders(self):
        return {}


class Recorder:
    def __init__(self):
        self.requests: List[Any] = []

    def open(self, request):
        self.requests.append(request)
        return _Resp(request.get_method())


def _mk_marker(tag):
    from ak.conn_http import RequestAdapter

    class Marker(RequestAdapter):
        def __init__(self, tag):
            self.tag = tag

        def process_req_args(self, req_args):
            req_args.headers["X-Trace"] = req_args.headers.get("X-Trace", "") + self.tag

        def process_response(self, return_value):
            return return_value + [self.tag]
    return Marker(tag)


# a layer description: (kind, arg)   kinds: prefix1 / prefixL / prefixT / marker / markers2 / basic / client / token / plain
def _wrap(conn_or_addr, layer, idx):
    from ak import conn_http as H
    kind, arg = layer
    if kind == "prefix1":
        return H.HttpConn(conn_or_addr, adapters=H.RequestAdapterAddPathPrefix(STRS[arg]))
    if kind == "prefixL":
        return H.HttpConn(conn_or_addr, adapters=[H.RequestAdapterAddPathPrefix(STRS[arg])])
    if kind == "prefixT":
        return H.HttpConn(conn_or_addr, adapters=(H.RequestAdapterAddPathPrefix(STRS[arg]),))
    if kind == "marker":
        return H.HttpConn(conn_or_addr, adapters=_mk_marker(f"m{idx}"))
    if kind == "markers2":
        return H.HttpConn(conn_or_addr, adapters=[_mk_marker(f"m{idx}a"), _mk_marker(f"m{idx}b")])
    if kind == "basic":
        return H.BAuthConn(conn_or_addr, "us:er", "p@~ss?")
    if kind == "client":
        return H.ClientAuthConn(conn_or_addr, "cname", "cid", "c~secre?")
    if kind == "token":
        return H.TokenAuthConn(conn_or_addr, "tok123", "descr")
    if kind == "plain":
        return H.HttpConn(conn_or_addr)
    raise ValueError(kind)


def _layer_model(layer, idx):
    """-> list of adapter models in the order the layer holds them: ('prefix', s) | ('mark', tag) | ('auth', header value)"""
    kind, arg = layer
    if kind.startswith("prefix"):
        return [("prefix", STRS[arg])]
    if kind == "marker":
        return [("mark", f"m{idx}")]
    if kind == "markers2":
        return [("mark", f"m{idx}a"), ("mark", f"m{idx}b")]
    if kind == "basic":
        return [("auth", "Basic", "us:er:p@~ss?")]
    if kind == "client":
        return [("auth", "Basic", "cid:c~secre?")]
    if kind == "token":
        return [("auth", "Bearer", "tok123")]
    return []


def _collapse(path: str) -> str:
    while "//" in path:
        path = path.replace("//", "/")
    return path


def expected_request(address: str, model_chain: List[Any], method: str, path: str, params, data, headers) -> Dict[str, Any]:
    """reference request builder from the statement; model_chain = adapters outermost-wrapper-first"""
    p = path
    trace = ""
    auth = []
    for a in model_chain:                       # own adapters of the outer wrappers are applied first,
        if a[0] == "prefix":                    # so prefixes of inner connections end up outermost
            p = a[1] + p
        elif a[0] == "mark":
            trace += a[1]
        else:
            auth.append(a)
    if params:
        p += "?" + urlencode(params)
    url_path = p if p.startswith("/") else "/" + p
    hdr = dict(headers or {})
    if data is None:
        body = None
    elif isinstance(data, bytes):
        body = data
    elif isinstance(data, str):
        body = data.encode("utf-8")
    else:
        body = json.dumps(data).encode("utf-8")
        hdr.setdefault("Content-Type", "application/json")
    return {"url": address + url_path, "method": method.upper(), "body": body, "headers": hdr, "trace": trace, "auth": auth,
            "resp": [a[1] for a in reversed(model_chain) if a[0] == "mark"]}


def check_request(req, resp, exp, what: str) -> None:
    got_url = req.full_url
    scheme, rest = got_url.split("://", 1)
    escheme, erest = exp["url"].split("://", 1)
    if scheme != escheme or _collapse(rest) != _collapse(erest):
        raise Violation(f"url :: {what}: request went to {got_url!r}, expected {exp['url']!r} (modulo duplicate slashes)")
    if req.get_method() != exp["method"]:
        raise Violation(f"method :: {what}: {req.get_method()} instead of {exp['method']}")
    if req.data != exp["body"]:
        raise Violation(f"body :: {what}: body {req.data!r}, expected {exp['body']!r}")
    items = {k.lower(): v for k, v in req.header_items()}
    n_auth = sum(1 for k, _ in req.header_items() if k.lower() == "authorization")
    if len(exp["auth"]) != n_auth:
        raise Violation(f"auth-count :: {what}: {n_auth} Authorization headers, expected {len(exp['auth'])}")
    if exp["auth"]:
        v = items["authorization"]
        v = v.decode() if isinstance(v, bytes) else v
        scheme_, _, val = v.partition(" ")
        _, escheme_, cred = exp["auth"][0]
        try:
            # credentials are chosen so that their base64 form contains '+' and '/' (the characters in which alphabets differ)
            dec = base64.b64decode(val, validate=True).decode() if scheme_ == "Basic" else val
        except ValueError as e:
            raise Violation(f"auth-value :: {what}: Authorization {v!r} is not standard base64: {e}")
        if scheme_ != escheme_ or dec != cred:
            raise Violation(f"auth-value :: {what}: Authorization {v!r} does not carry {escheme_} {cred!r}")
    if items.get("x-trace", "") != exp["trace"]:
        raise Violation(f"adapters-applied :: {what}: adapters applied {items.get('x-trace', '')!r}, expected each exactly once in order {exp['trace']!r}")
    for k, v in exp["headers"].items():
        if items.get(k.lower()) != v:
            raise Violation(f"headers :: {what}: header {k} is {items.get(k.lower())!r}, expected {v!r}")
    extra = set(items) - {k.lower() for k in exp["headers"]} - {"authorization", "x-trace", "x-request-id"}
    if extra:
        raise Violation(f"headers-extra :: {what}: unexpected headers {sorted(extra)}")
    if resp != exp["resp"]:
        raise Violation(f"response-order :: {what}: response processors ran as {resp!r}, expected reverse order {exp['resp']!r}")


def _send(conn, method, path, params, data, headers):
    """-> (request, response value); checks that the caller's objects are not modified"""
    rec = conn.conn_impl.opener
    snap = (copy.deepcopy(params), copy.deepcopy(data), copy.deepcopy(headers))
    n0 = len(rec.requests)
    resp = getattr(conn, method)(path, params=params, data=data, headers=headers)
    if (params, data, headers) != snap:
        raise Violation(f"caller-objects-modified :: params/data/headers changed from {snap!r} to {(params, data, headers)!r}")
    if len(rec.requests) != n0 + 1:
        raise Violation(f"request-count :: {len(rec.requests) - n0} requests sent for one call")
    return rec.requests[-1], resp


def _headers(hk: int):
    return [None, {"Content-Type": "text/x"}, {"X-Request-ID": "my-id", "Accept": "a/b"}][hk]


def _run_chain(layers, mi, pi, qi, bi, hk) -> None:
    from ak import conn_http as H
    address = "http://h.example:8080"
    base = H.HttpConn(address + "/")              # trailing slash of a str address is dropped by the constructor
    base.conn_impl.opener = Recorder()
    conns = [base]
    models: List[List[Any]] = [[]]
    for idx, layer in enumerate(layers):
        try:
            c = _wrap(conns[-1], layer, idx)
        except Exception as e:  # noqa
            raise Violation(f"wrap-raises :: wrapping with {layer} raises {type(e).__name__}: {e}")
        conns.append(c)
        models.append(_layer_model(layer, idx) + models[-1])
    method, path, params, data, headers = METHODS[mi], STRS[pi], copy.deepcopy(PARAMS[qi]), copy.deepcopy(BODIES[bi]), _headers(hk)
    # every connection of the chain, innermost first and then again in reverse: derived connections must not disturb the inner ones
    order = list(range(len(conns))) + list(range(len(conns) - 1, -1, -1))
    # the same connections are then used with a path of the other shape (with / without a leading slash) and again with the
    # first one: where a request goes must not depend on the requests made before
    path2 = path.lstrip("/") or "b" if path.startswith("/") else "/" + path
    for rnd, pth in enumerate((path, path2, path)):
        for k in (order if rnd == 0 else range(len(conns))):
            what = f"layers={layers[:k]} {method} path={pth!r} params={params} data={data!r} headers={headers}" + (f" (after requests with path {path!r})" if rnd else "")
            try:
                req, resp = _send(conns[k], method, pth, params, data, headers)
            except Violation:
                raise
            except Exception as e:  # noqa
                raise Violation(f"request-raises :: {what}: {type(e).__name__}: {e}")
            check_request(req, resp, expected_request(address, models[k], method, pth, params, data, headers), what)
    for k, c in enumerate(conns):
        for j, d in enumerate(conns):
            if k != j and c.adapters is d.adapters:
                raise Violation(f"shared-adapter-list :: connections {k} and {j} share one adapters list object")


LAYER_KINDS = ["prefix1", "prefixL", "prefixT", "marker", "markers2", "basic", "client", "token", "plain"]
LAYERS_FULL = [(k, a) for k in LAYER_KINDS[:3] for a in range(len(STRS))] + [(k, 0) for k in LAYER_KINDS[3:]]
LAYERS_SMALL = [(k, a) for k in LAYER_KINDS[:3] for a in (2, 3)] + [(k, 0) for k in LAYER_KINDS[3:]]


def _args_cover():
    out = []
    for pi in range(len(STRS)):
        for qi in range(len(PARAMS)):
            out.append((0, pi, qi, 0, 0))
    for bi in range(len(BODIES)):
        for hk in range(3):
            out.append((1, 1, 0, bi, hk))
    for mi in range(5):
        for bi in range(len(BODIES)):
            out.append((mi, 2, 1, bi, 0))
    seen = []
    for x in out:
        if x not in seen:
            seen.append(x)
    return seen


ARGS_COVER = _args_cover()
ARGS_FULL = [(mi, pi, qi, bi, hk) for mi in range(5) for pi in range(len(STRS)) for qi in range(len(PARAMS)) for bi in range(len(BODIES)) for hk in range(3)]
ARGS_PATHS = [(0, pi, 0, 0, 0) for pi in range(len(STRS))]
ARGS_FEW = [(0, 2, 1, 3, 0), (1, 1, 0, 0, 2), (3, 0, 2, 1, 1)]


def h_chain(l0: int, l1: int, l2: int, ai: int, shard=None) -> None:
    """one choice variable per layer (index into the layer list) and one for the request arguments"""
    n = shard["n"]
    layers_list = LAYERS_FULL if shard.get("layers", "full") == "full" else LAYERS_SMALL
    args_list = {"cover": ARGS_COVER, "full": ARGS_FULL, "paths": ARGS_PATHS, "few": ARGS_FEW}[shard["args"]]
    ls = [l0, l1, l2]
    for i in range(3):
        if i < n:
            reject_unless(0 <= ls[i] < len(layers_list))
        else:
            reject_unless(ls[i] == 0)
    reject_unless(0 <= ai < len(args_list))
    if "first" in shard and n:
        lo, hi = shard["first"]
        reject_unless(lo <= l0 < hi)
    l0, l1, l2, ai = [realize(x) for x in (l0, l1, l2, ai)]
    layers = [layers_list[x] for x in (l0, l1, l2)[:n]]
    reject_unless(sum(1 for l in layers if l[0] in ("basic", "client", "token")) <= 1)
    with concrete():
        _run_chain(layers, *args_list[ai])


# ---------------------------------------------------------------------------------------------------
# method callers
# ---------------------------------------------------------------------------------------------------
_CALLER_CLS = [None]


def _caller_cls():
    if _CALLER_CLS[0] is None:
        from ak.mcaller_http import MCallerHttp, method_http

        class MyCaller(MCallerHttp):
            _HTTP_PREFIX_MAP = {"compA": "/pa", "compE": ""}

            @method_http(None, "compA")
            def m_a(self, x):
                return self.get_conn().get("m", params={"x": x})

            @method_http("basic")
            def m_plain(self):
                return self.get_conn().post("/p", data={"k": 1})

            @method_http(None, ["compE", "other"])
            def m_e(self):
                return self.get_conn().delete("e")
        _CALLER_CLS[0] = MyCaller
    return _CALLER_CLS[0]


def _call_and_check(caller, model_chain, address, which: int, what: str) -> None:
    rec = caller.http_conn.conn_impl.opener
    n0 = len(rec.requests)
    try:
        if which == 0:
            resp = caller.m_a(5)
            exp = expected_request(address, [("prefix", "/pa")] + model_chain, "GET", "m", {"x": 5}, None, None)
        elif which == 1:
            resp = caller.m_plain()
            exp = expected_request(address, model_chain, "POST", "/p", None, {"k": 1}, None)
        else:
            resp = caller.m_e()
            exp = expected_request(address, model_chain, "DELETE", "e", None, None, None)
    except Violation:
        raise
    except Exception as e:  # noqa
        raise Violation(f"caller-raises :: {what}: method {which} raises {type(e).__name__}: {e}")
    if len(rec.requests) != n0 + 1:
        raise Violation(f"request-count :: {what}: {len(rec.requests) - n0} requests for one call")
    resp = getattr(resp, "r", resp)
    check_request(rec.requests[-1], resp, exp, f"{what} method {which}")


def _run_history(steps) -> None:
    """steps: list of (op, target, arg); objects are method callers; the first one is created from an address"""
    from ak import conn_http as H
    address = "http://svc.example"
    cls = _caller_cls()
    first = cls(address)
    first.http_conn.conn_impl.opener = Recorder()
    callers = [first]
    models: List[List[Any]] = [[]]
    parents: List[Optional[int]] = [None]
    tainted: set = set()      # callers whose own connection got an adapter afterwards (their own requests are not specified here)
    log = []
    for si, (op, tgt, arg) in enumerate(steps):
        tgt = tgt % len(callers)
        c, m = callers[tgt], models[tgt]
        what = f"history {log + [(op, tgt, arg)]}"
        n_before = len(callers)
        try:
            if op == "addad":
                # an adapter added to a connection nothing was derived from: every OTHER connection must stay as it was
                if tgt in parents:
                    _call_and_check(c, m, address, arg % 3, what) if tgt not in tainted else None
                else:
                    c.http_conn.add_adapter(H.RequestAdapterAddPathPrefix("/added") if arg % 2 else _mk_marker(f"added{si}"))
                    tainted.add(tgt)
            elif op == "call":
                if tgt not in tainted:
                    _call_and_check(c, m, address, arg % 3, what)
            elif op == "clone1":
                ad = _mk_marker(f"c{si}")
                callers.append(c.clone(ad))
                models.append([("mark", f"c{si}")] + m)
            elif op == "cloneL":
                ads = [_mk_marker(f"c{si}a"), H.RequestAdapterAddPathPrefix("/cl")] if arg % 2 else [_mk_marker(f"c{si}a")]
                callers.append(c.clone(ads))
                models.append([("mark", f"c{si}a")] + ([("prefix", "/cl")] if arg % 2 else []) + m)
            elif op == "clone0":
                callers.append(c.clone())
                models.append(list(m))
            elif op == "cloneB":
                callers.append(c.clone(H.BAuthConn.Adapter("us:er", "p@~ss?")))
                models.append([("auth", "Basic", "us:er:p@~ss?")] + m)
            elif op == "wrapconn":
                conn = H.HttpConn(c.http_conn, adapters=[_mk_marker(f"w{si}")])
                callers.append(cls(conn))
                models.append([("mark", f"w{si}")] + m)
            elif op == "wrap0":
                conn = H.HttpConn(c.http_conn, adapters=[]) if arg % 2 else H.HttpConn(c.http_conn)
                callers.append(cls(conn))
                models.append(list(m))
            else:
                raise ValueError(op)
        except Violation:
            raise
        except Exception as e:  # noqa
            raise Violation(f"derive-raises :: {what}: {op} raises {type(e).__name__}: {e}")
        log.append((op, tgt, arg))
        for k in range(n_before, len(callers)):
            parents.append(tgt)
            if tgt in tainted:
                tainted.add(k)
        # non-interference: every caller created so far still sends exactly its own requests
        for k, (cc, mm) in enumerate(zip(callers, models)):
            if sum(1 for a in mm if a[0] == "auth") > 1 or k in tainted:
                continue
            for which in (0, 1, 2):
                _call_and_check(cc, mm, address, which, f"{what} -> afterwards caller {k}")


OPS = ["call", "clone1", "cloneL", "clone0", "cloneB", "wrapconn", "wrap0", "addad"]


def h_history(n: int, o0: int, t0: int, r0: int, o1: int, t1: int, r1: int, o2: int, t2: int, r2: int, shard=None) -> None:
    reject_unless(n == shard["n"])
    raw = [(o0, t0, r0), (o1, t1, r1), (o2, t2, r2)]
    for i, (o, t, r) in enumerate(raw):
        if i < n:
            reject_unless(0 <= o < len(OPS) and 0 <= t <= i and 0 <= r < 2)
        else:
            reject_unless(o == 0 and t == 0 and r == 0)
    if "o0" in shard:
        reject_unless(o0 == shard["o0"])
    vals = [realize(x) for tup in raw for x in tup]
    steps = [(OPS[vals[3 * i]], vals[3 * i + 1], vals[3 * i + 2]) for i in range(n)]
    reject_unless(sum(1 for s in steps if s[0] == "cloneB") <= 1)
    with concrete():
        _run_history(steps)


def _first_ranges(layers_list):
    """index ranges of the layer list per layer kind (shards)"""
    out = []
    for k in LAYER_KINDS:
        idx = [i for i, l in enumerate(layers_list) if l[0] == k]
        out.append((k, (idx[0], idx[-1] + 1)))
    return out


def jobs(tier: str) -> List[Job]:
    t = tier == "thorough"
    js: List[Job] = []
    js.append(Job(__name__, "h_chain", shard={"n": 0, "args": "full" if t else "cover"}, budget_s=600, label="chain:n0:arguments", must_exhaust=True))
    for k, rng in _first_ranges(LAYERS_FULL):
        js.append(Job(__name__, "h_chain", shard={"n": 1, "args": "full" if t else "cover", "first": rng}, budget_s=3000 if t else 100, label=f"chain:n1:{k}:arguments", must_exhaust=not t))
        js.append(Job(__name__, "h_chain", shard={"n": 2, "args": "paths", "first": rng}, budget_s=1500 if t else 100, label=f"chain:n2:{k}:paths", must_exhaust=True))
    for k, rng in _first_ranges(LAYERS_SMALL if not t else LAYERS_FULL):
        js.append(Job(__name__, "h_chain", shard={"n": 3, "args": "few", "first": rng, "layers": "small" if not t else "full"}, budget_s=3000 if t else 100, label=f"chain:n3:{k}"))
    for n in (1, 2):
        js.append(Job(__name__, "h_history", shard={"n": n}, budget_s=1500 if t else 100, label=f"history:n{n}", must_exhaust=True))
    for o0 in range(len(OPS)):
        js.append(Job(__name__, "h_history", shard={"n": 3, "o0": o0}, budget_s=1500 if t else 100, label=f"history:n3:first={OPS[o0]}", must_exhaust=True))
    return js
