"""C14 - syntax colors resolve by inheritance, independent of registration order (XH).

Description sets over 3 ids (one dotted, given in nested-dict form), their split over the explicit configuration and
later component registrations, and the registration order are symbolic choices (structural: enumerated by the solver).
Oracle: a short order-free resolver written from the statement; compared through observables only.
"""
from __future__ import annotations

import itertools
from typing import Any, Dict, List, Optional

from vf.core import Job
from vf.xh import Violation, concrete, realize, reject_unless

PROPERTY_ID = "C14"
FUNCTIONS = ["ak.color._ColorConfColorDescr.__init__", "ak.color._ColorConfColorDescr.resolve", "ak.color._ColorConfColorDescr._parse_init_str",
             "ak.color._ColorConfColorDescr._parse_colors_part", "ak.color._ColorConfColorDescr._parse_color", "ak.color._ColorConfColorDescr._parse_color_impl",
             "ak.color._ColorConfColorDescr._parse_modifiers", "ak.color.ColorsConfig.__init__", "ak.color.ColorsConfig.add_new_items", "ak.color.ColorsConfig._flatten_dict",
             "ak.color.ColorsConfig.get_color", "ak.color.ColorsConfig.register_color_conf_component", "ak.color.Palette.register_in_colors_conf",
             "ak.color.Palette._prepare_local_colors", "ak.color.Palette._sync_with_config", "ak.color.set_global_colors_config", "ak.color._PaletteMeta.__call__"]
BOUNDS = {
    "quick": {"ids": "3 ids (one dotted / nested-dict form) + references to a built-in id and to a never-registered id; chains up to length 3, acyclic",
              "descriptions": "middle id: parent from 5 choices x foreground from {absent, '-', name, 255, 0, g5, (1,2,3)} x modifiers from 3 sets, background from 3 forms in a second shard; "
                              "the two other ids from 6 representative descriptions each",
              "registration": "8 splits: all explicit; one component; each id in its own component in all 6 orders; + one id defined both explicitly and by a later component; no_color twin"},
}
BOUNDS["thorough"] = dict(BOUNDS["quick"], descriptions="middle id: full product parent(5) x foreground(6) x background(4) x modifiers(5); others from 6 representative descriptions")
OUTSIDE = ["cyclic references (the module asserts)", "syntactically invalid descriptions", "two components defining the same id differently (first registration wins by design)", "more than 3 ids"]
STUBS = []
ASSUMPTIONS = ["formatters are compared through the text they emit for a sample string (the numeric colour mapping itself is C09's subject)"]

IDS = ["XA", "XG.B.C", "XC"]          # the dotted id is written as three nested dictionaries
FG = ["", "-", "RED", "255", "g5", "( 1,2, 3)", "0"]
BG = ["", "-", "BLUE", "g5", "0"]
MODS = [[], ["bold"], ["no_bold", "crossed"], ["bold", "crossed"], ["no_crossed", "underline"]]
PARENTS = ["none", "WARN", "XUNK", "prev", "next"]
SMALL = [(0, 2, 0, 1), (0, 0, 1, 0), (4, 1, 0, 2), (4, 0, 2, 0), (2, 2, 0, 0), (1, 0, 0, 3)]     # (parent, fg, bg, mods)
SPLITS = [("EEE", ""), ("AAA", "A"), ("ABC", "ABC"), ("ABC", "ACB"), ("ABC", "BAC"), ("ABC", "BCA"), ("ABC", "CAB"), ("ABC", "CBA")]


def classify(record) -> str:
    return (record.get("message") or "").split("::")[0].strip()[:60] or "c14"


def reset_state():
    import ak.color as C
    C._GLOBAL_COLORS_CONF = None
    for p in C._GSYNCED_PALETTES.values():
        pass


def _val(form: str):
    form = form.strip()
    if form == "":
        return "inherit"
    if form == "-":
        return None
    if form.startswith("("):
        return tuple(int(x) for x in form[1:-1].split(","))
    if form.isdigit():
        return int(form)
    return form


def _init_str(k: int, d) -> (str, Optional[str]):
    p, fg, bg, md = d
    pk = PARENTS[p]
    parent = {"none": None, "WARN": "WARN", "XUNK": "XUNK", "prev": IDS[(k - 1) % 3], "next": IDS[(k + 1) % 3]}[pk]
    colors = FG[fg] + ("/" + BG[bg] if BG[bg] != "" or (fg == 0 and k % 2) else "")
    mods = ",".join(MODS[md])
    parts = []
    if parent is not None:
        parts.append(parent)
        if colors:
            parts.append(colors)
    else:
        parts.append(colors)
    if mods:
        parts.append(mods)
    return ":".join(parts), parent


def oracle(descrs: Dict[str, Any]) -> Dict[str, Any]:
    """order-free resolver: id -> (fg, bg, mods) or None when unresolved"""
    builtin = {"WARN": ("RED", None, {})}
    memo: Dict[str, Any] = {}

    def res(i, seen=()):
        if i in builtin:
            return builtin[i]
        if i not in descrs:
            return None
        if i in memo:
            return memo[i]
        parent, fg, bg, mods = descrs[i]
        if parent is None:
            out = (None if fg == "inherit" else fg, None if bg == "inherit" else bg, dict(mods))
        else:
            p = res(parent)
            if p is None:
                out = None
            else:
                out = (p[0] if fg == "inherit" else fg, p[1] if bg == "inherit" else bg, {**p[2], **mods})
        memo[i] = out
        return out
    return {i: res(i) for i in descrs}


def _mods_dict(md):
    out = {}
    for m in MODS[md]:
        if m.startswith("no_"):
            out[m[3:]] = False
        else:
            out[m] = True
    return out


def _nest(flat: Dict[str, str]) -> Dict[str, Any]:
    """dotted ids as nested dictionaries, one level per dot"""
    out: Dict[str, Any] = {}
    for k, v in flat.items():
        parts = k.split(".")
        cur = out
        for part in parts[:-1]:
            cur = cur.setdefault(part, {})
        cur[parts[-1]] = v
    return out


def _run_case(ds, split, order, no_color: bool, dup: bool) -> None:
    import ak.color as C
    strs = {}
    descrs = {}
    for k, d in enumerate(ds):
        s, parent = _init_str(k, d)
        strs[IDS[k]] = s
        descrs[IDS[k]] = (parent, _val(FG[d[1]]), _val(BG[d[2]]), _mods_dict(d[3]))
    # acyclic only
    for i in IDS:
        seen = set()
        cur = i
        while cur in descrs and descrs[cur][0] is not None:
            if cur in seen:
                return          # cyclic: outside the claim
            seen.add(cur)
            cur = descrs[cur][0]
    want = oracle(descrs)
    what = f"descriptions={strs} split={split} order={order} no_color={no_color} dup={dup}"

    def expected_text(i):
        r = want[i]
        if r is None or no_color:
            return "t"
        fg, bg, mods = r
        return str(C.ColorFmt(fg, bg_color=bg, **mods)("t"))

    explicit = {IDS[k]: strs[IDS[k]] for k in range(3) if split[k] == "E"}
    comps: Dict[str, Dict[str, str]] = {}
    for k in range(3):
        if split[k] != "E":
            comps.setdefault(split[k], {})[IDS[k]] = strs[IDS[k]]
    if dup and explicit:
        # an id of the explicit configuration is also "defined" (differently) by the first later component: explicit must win
        first = order[0] if order else "A"
        comps.setdefault(first, {})[sorted(explicit)[0]] = "MAGENTA/YELLOW:blink"
        if first not in order:
            order = first + order
    explicit_conf = dict(explicit)
    if dup:
        # the default text color is made visible: an id that is still unresolved must stay uncolored, not fall back to it
        explicit_conf["TEXT"] = "CYAN:bold"
    try:
        conf = C.ColorsConfig(_nest(explicit_conf), no_color=no_color)
    except Exception as e:  # noqa
        raise Violation(f"config-raises :: {what}: ColorsConfig(...) raises {type(e).__name__}: {e}")
    pal_cls = C._PaletteMeta("VPalette", (C.Palette,), {"c0": C.ConfColor(IDS[0]), "c1": C.ConfColor(IDS[1]), "c2": C.ConfColor(IDS[2])})
    early = pal_cls(colors_conf=conf)
    for name in order:
        try:
            conf.register_color_conf_component(_nest(comps[name]), f"component-{name}")
        except Exception as e:  # noqa
            raise Violation(f"register-raises :: {what}: registering component {name} raises {type(e).__name__}: {e}")
    for k, i in enumerate(IDS):
        got = str(conf.get_color(i)("t"))
        if got != expected_text(i):
            raise Violation(f"wrong-color :: {what}: get_color({i!r}) renders {got!r}, expected {expected_text(i)!r} (resolved {want[i]})")
        pal = pal_cls(colors_conf=conf)
        pg = str(getattr(pal, f"c{k}")("t"))
        if pg != expected_text(i):
            raise Violation(f"palette-stale :: {what}: a palette obtained now renders {i!r} as {pg!r}, expected {expected_text(i)!r}")
        gp = conf.get_palette()
        if str(gp[i]("t")) != expected_text(i):
            raise Violation(f"global-palette :: {what}: conf.get_palette()[{i!r}] renders {str(gp[i]('t'))!r}")
    # the synced global palette follows the global configuration
    try:
        C.set_global_colors_config(conf)
        for i in IDS:
            if str(C.global_palette[i]("t")) != expected_text(i):
                raise Violation(f"synced-palette :: {what}: global_palette[{i!r}] renders {str(C.global_palette[i]('t'))!r}, expected {expected_text(i)!r}")
    finally:
        C.set_global_colors_config(None)
    _ = early


def _mid_list(shard):
    return [(p, f, b, m) for p in (range(5) if "p1" not in shard else [shard["p1"]]) for f in range(len(FG)) for b in shard["bg"] for m in shard["mods"]]


def h_config(mid: int, others: int, dup: bool, shard=None) -> None:
    """3 choice variables: description of the middle id, pair of descriptions for the other two ids, duplicate-definition flag"""
    mids = _mid_list(shard)
    ns = shard.get("nsmall", len(SMALL))
    reject_unless(0 <= mid < len(mids) and 0 <= others < ns * ns)
    split, order = SPLITS[shard["split"]]
    if split != "ABC":
        reject_unless(not dup)
    mid, others, dup = realize(mid), realize(others), realize(dup)
    ds = [SMALL[others // ns], mids[mid], SMALL[others % ns]]
    with concrete():
        if dup:
            _run_case(ds, "E" + split[1:], order.replace("A", ""), shard["no_color"], True)   # id 0 explicit + redefined by a component
        else:
            _run_case(ds, split, order, shard["no_color"], False)


def jobs(tier: str) -> List[Job]:
    t = tier == "thorough"
    js: List[Job] = []
    if t:
        for p1 in range(5):
            for sp in range(len(SPLITS)):
                js.append(Job(__name__, "h_config", shard={"bg": list(range(len(BG))), "mods": list(range(len(MODS))), "split": sp, "no_color": False, "p1": p1},
                              budget_s=1500, label=f"config:parent={PARENTS[p1]}:split{sp}"))
        js.append(Job(__name__, "h_config", shard={"bg": [0, 1], "mods": [0, 1], "split": 2, "no_color": True}, budget_s=900, label="config:no_color"))
        return js
    for sp in range(len(SPLITS)):
        js.append(Job(__name__, "h_config", shard={"bg": [0], "mods": [0, 1, 2], "split": sp, "no_color": False, "nsmall": 4}, budget_s=100, label=f"config:fg+mods:split{sp}", must_exhaust=True))
    for sp in (0, 2, 5, 7):
        js.append(Job(__name__, "h_config", shard={"bg": [1, 2, 3, 4], "mods": [0], "split": sp, "no_color": False, "nsmall": 4}, budget_s=100, label=f"config:bg:split{sp}", must_exhaust=True))
    for sp in (3, 6):
        js.append(Job(__name__, "h_config", shard={"bg": [0, 2], "mods": [0, 3, 4], "split": sp, "no_color": False, "nsmall": 6, "p1": 4}, budget_s=100, label=f"config:all-small:split{sp}", must_exhaust=True))
    js.append(Job(__name__, "h_config", shard={"bg": [0, 1], "mods": [0, 1], "split": 7, "no_color": True, "p1": 3}, budget_s=100, label="config:no_color", must_exhaust=True))
    return js
