"""C02 - conflict-free (LL(1)) grammars are parsed exactly (XH-driven exhaustive enumeration).

Same grammar families as C01.  Oracles written from the statement: textbook NULLABLE/FIRST/FOLLOW/predict on the user's
grammar decide 'LL(1) as written'; an independent fixpoint recogniser decides sentence-hood for every token string.
"""
from __future__ import annotations

from typing import List

from vf.core import Job
from vf.props import _grammar as G
from vf.props import c01
from vf.xh import Reject, Violation, concrete, realize, reject_unless

PROPERTY_ID = "C02"
FUNCTIONS = c01.FUNCTIONS + ["ak.llparser.LLParser.is_ambiguous"]
BOUNDS = {k: dict(v) for k, v in c01.BOUNDS.items()}
OUTSIDE = c01.OUTSIDE
STUBS = c01.STUBS
ASSUMPTIONS = ["LL(1)-ness decided by an independent FIRST/FOLLOW computation on the grammar as written; sentence-hood by an independent fixpoint recogniser (exact for the bounded strings)"]
MAXLEN = {"quick": 4, "thorough": 6}


def classify(record) -> str:
    return (record.get("message") or "").split("::")[0].strip()[:60] or "c02"


def _check_grammar(family, holes, perm, maxlen, reverse=False) -> None:
    names = G.NAME_PERMS[perm]
    g = G.instantiate(family, holes, names, reverse)
    start = names["S"]
    if G.left_recursive(g):
        raise Reject()          # the property quantifies over non-left-recursive grammars
    ll1 = G.is_ll1(g, start)
    parsers = {}
    for smart in (True, False):
        parser, err = G.build_parser(g, start, smart)
        if parser is None:
            if ll1:
                raise Violation(f"ll1-rejected :: LL(1) grammar [{G.describe(g)}] is rejected by the constructor ({err}, smart={smart})")
            continue
        parsers[smart] = parser
        if ll1 and parser.is_ambiguous():
            raise Violation(f"ll1-reported-ambiguous :: grammar [{G.describe(g)}] is LL(1) as written but is_ambiguous() is True (smart={smart})")
    exact = {s: p for s, p in parsers.items() if not p.is_ambiguous()}
    if not exact:
        raise Reject()
    for toks in G.all_token_strings(maxlen, G.terms_of(g)):
        member = G.recognises(g, start, toks)
        outcomes = {}
        for smart, parser in exact.items():
            kind, val = G.parse_tokens(parser, toks)
            what = f"grammar [{G.describe(g)}] (LL(1) as written: {ll1}) smart={smart} input {' '.join(toks)!r}"
            if kind == "fuel":
                raise Violation(f"no-termination :: {what}: parse does not finish within the step budget")
            if kind == "exc":
                raise Violation(f"parse-raises :: {what}: {type(val).__name__}: {val} (non-sentences must raise ParsingError)")
            if kind == "tree" and not member:
                raise Violation(f"accepts-non-sentence :: {what}: accepted, but the token string is not a sentence")
            if kind == "ParsingError" and member:
                raise Violation(f"rejects-sentence :: {what}: ParsingError, but the token string is a sentence")
            if kind == "tree":
                e = G.check_derivation(val, g, start, toks)
                if e:
                    raise Violation(f"bad-tree :: {what}: {e}")
                outcomes[smart] = repr(val)
            else:
                outcomes[smart] = kind
        for smart, parser in exact.items():
            if parser.is_ambiguous():
                raise Violation(f"ambiguity-flips :: grammar [{G.describe(g)}] smart={smart}: is_ambiguous() was False and became True after parsing {' '.join(toks)!r}")
        if len(set(outcomes.values())) > 1:
            raise Violation(f"smart-differs :: grammar [{G.describe(g)}] input {' '.join(toks)!r}: the two smart_factorization settings give different results {outcomes}")


def h_family(h0: int, h1: int, h2: int, h3: int, h4: int, rev: bool, shard=None) -> None:
    fam = shard["family"]
    n = G.n_holes(fam)
    dom = len(G.FAMILIES[fam][1])
    hs = [h0, h1, h2, h3, h4]
    for i in range(5):
        if i < n:
            reject_unless(0 <= hs[i] < dom)
        else:
            reject_unless(hs[i] == 0)
    if "h0" in shard:
        reject_unless(h0 == shard["h0"])
    hs = [realize(x) for x in hs]
    rev = realize(rev)
    with concrete():
        _check_grammar(fam, hs[:n], shard.get("perm", 0), shard["maxlen"], rev)


def replay_h_family(record):
    from vf.core import decode_args
    a = decode_args(record["args"])
    shard = record["fixed"]["shard"]
    n = G.n_holes(shard["family"])
    try:
        _check_grammar(shard["family"], [a[f"h{i}"] for i in range(5)][:n], shard.get("perm", 0), shard["maxlen"], a.get("rev", False))
    except Violation as e:
        return str(e)
    except Reject:
        return "REJECTED"
    return None


def jobs(tier: str) -> List[Job]:
    js = [j for j in c01.jobs(tier) if j.func == "h_family"]
    for j in js:
        j.module = __name__
        j.must_exhaust = True
        j.allow_vacuous = True
    return js
