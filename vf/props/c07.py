"""C07 - component builds are reported at the first parent build that ships them (XH-driven enumeration).

(a) repository ordering / cycle rejection: every dependency graph over <= 4 repositories (native sweep, first row = z3 choice).
(b) included_at / bumps: component history linear with increasing build numbers; parent history from families (linear, release +
    master); per parent commit the pinned component version is an index into the component's builds, non-decreasing along
    every path (all such assignments swept natively), parent build tags and matching flags all subsets.
Oracle from the statement, over the two commit graphs only.
"""
from __future__ import annotations

import itertools
import json
from typing import Any, Dict, List, Optional, Set

from vf.core import Job
from vf.props.c06 import StubRepo, reach
from vf.xh import Violation, concrete, realize, reject_unless

PROPERTY_ID = "C07"
FUNCTIONS = ["ak.ghist.ReposCollection.__init__", "ak.ghist.ReposCollection.make_reports_data", "ak.ghist.RGraph.__init__", "ak.ghist.RGraph._mk_bumps_info",
             "ak.ghist.RGraph._get_relevant_cmpnts_versions", "ak.ghist.RGraph._get_relevant_cmpnts_names", "ak.ghist.ComponentBump.get_rbuilds_in_bump", "ak.ghist.ComponentBump.is_trivial",
             "ak.ghist.ProjectRepo.get_components_versions", "ak.ghist.RGraph._mk_rcommits", "ak.ghist.RGraph._read_branch"]
BOUNDS = {
    "quick": {"(a) graphs": "ALL 4096 dependency graphs over 4 repositories (and all over <= 3), repository ids in every alphabetical role",
              "(b) histories": "component: linear 2-4 builds or fork+merge / side-line shapes (containment = reachability), every subset matching; parent: linear 1-4 commits or release + master over 4 commits; every non-decreasing pin assignment naming existing builds; "
                               "every subset of parent build tags; parent commits with / without own matching message"},
}
BOUNDS["thorough"] = dict(BOUNDS["quick"], **{"(b) histories": BOUNDS["quick"]["(b) histories"].replace("2-4 builds", "2-5 builds").replace("1-4 commits", "1-5 commits")})
OUTSIDE = ["parent merges other than one fork-merge inside a branch", "more than 3 repositories in part (b) (one parent, one or two components with equal histories)", "pins naming non-existent builds", "commit times outside the cut-off windows (all stub commits within one day)",
           "component with several release branches"]
STUBS = ["in-memory git repositories (as C06) with a DEPENDS file per parent commit read by a ProjectRepo subclass defined in the harness"]
ASSUMPTIONS = ["'contains' = pinned build number >= the component build's number (component history is linear with increasing numbers)"]


def classify(record) -> str:
    return (record.get("message") or "").split("::")[0].strip()[:60] or "c07"


# ---------------------------------------------------------------------------------------------------
# (a) ordering / cycles
# ---------------------------------------------------------------------------------------------------
def _has_cycle(n, edges) -> bool:
    color = {}

    def dfs(u):
        color[u] = 1
        for v in range(n):
            if edges[u][v]:
                if color.get(v) == 1:
                    return True
                if v not in color and dfs(v):
                    return True
        color[u] = 2
        return False
    return any(u not in color and dfs(u) for u in range(n))


def _check_order(n: int, edges, names: List[str], supply_order) -> None:
    import ak.ghist as G
    classes = {}
    for i in range(n):
        deps = {names[j]: "DEPENDS" for j in range(n) if edges[i][j]}
        classes[i] = type(f"Repo{i}", (G.ProjectRepo,), {"_COMPONENTS_VERSIONS_LOCATIONS": deps})
    repos = {}
    for i in supply_order:
        repo = StubRepo(names[i], {1: []}, {}, {}, {"master": 1})
        repos[names[i]] = classes[i](names[i], repo, "origin")
    what = f"repositories {names[:n]} with dependencies {[(names[i], names[j]) for i in range(n) for j in range(n) if edges[i][j]]} supplied as {[names[i] for i in supply_order]}"
    cyc = _has_cycle(n, edges)
    try:
        coll = G.ReposCollection(repos)
    except ValueError:
        if not cyc:
            raise Violation(f"false-cycle :: {what}: ValueError although the dependency graph is acyclic")
        return
    except Exception as e:  # noqa
        raise Violation(f"raises :: {what}: {type(e).__name__}: {e}")
    if cyc:
        raise Violation(f"cycle-accepted :: {what}: cyclic component dependencies were not rejected with ValueError")
    order = coll.sorted_repos
    if sorted(order) != sorted(names[:n]):
        raise Violation(f"not-a-permutation :: {what}: sorted_repos == {order}")
    pos = {r: k for k, r in enumerate(order)}
    for i in range(n):
        for j in range(n):
            if edges[i][j] and pos[names[j]] > pos[names[i]]:
                raise Violation(f"component-after-owner :: {what}: {names[j]} is a component of {names[i]} but is analysed after it: {order}")


def h_repo_order(row0: int, perm: int, shard=None) -> None:
    n = shard["n"]
    reject_unless(0 <= row0 < 2 ** (n - 1) and 0 <= perm < shard["nperm"])
    row0, perm = realize(row0), realize(perm)
    pool = ["bb", "aa", "dd", "cc"]
    name_perms = list(itertools.permutations(pool[:n]))
    names = list(name_perms[(perm * 5) % len(name_perms)])
    with concrete():
        others = [(i, j) for i in range(1, n) for j in range(n) if i != j]
        first = [j for j in range(1, n)]
        for bits in range(2 ** len(others)):
            edges = [[False] * n for _ in range(n)]
            for k, j in enumerate(first):
                edges[0][j] = bool((row0 >> k) & 1)
            for k, (i, j) in enumerate(others):
                edges[i][j] = bool((bits >> k) & 1)
            _check_order(n, edges, names, list(range(n)) if perm % 2 == 0 else list(reversed(range(n))))


# ---------------------------------------------------------------------------------------------------
# (b) included_at / bumps
# ---------------------------------------------------------------------------------------------------
PARENT_SHAPES = {
    "linear1": ({1: []}, {"master": 1}),
    "linear2": ({1: [], 2: [1]}, {"master": 2}),
    "linear3": ({1: [], 2: [1], 3: [2]}, {"master": 3}),
    "linear4": ({1: [], 2: [1], 3: [2], 4: [3]}, {"master": 4}),
    "linear5": ({1: [], 2: [1], 3: [2], 4: [3], 5: [4]}, {"master": 5}),
    "release+master": ({1: [], 2: [1], 3: [2], 4: [1]}, {"release/1.0": 3, "master": 4}),
    "release+master2": ({1: [], 2: [1], 3: [2], 4: [2], 5: [4]}, {"release/1.0": 3, "master": 5}),
    # merges inside one parent branch: two sub-branches (possibly both built, with different pins) and their merge
    "pmerge": ({1: [], 2: [1], 3: [1], 4: [2, 3]}, {"master": 4}),
    "pmerge-swapped": ({1: [], 2: [1], 3: [1], 4: [3, 2]}, {"master": 4}),
    "pmerge-tail": ({1: [], 2: [1], 3: [1], 4: [2, 3], 5: [4]}, {"master": 5}),
}


def _mk_parent_class(ncomp: int = 1):
    import ak.ghist as G

    class ParentRepo(G.ProjectRepo):
        _COMPONENTS_VERSIONS_LOCATIONS = {"lib": "DEPENDS", "lib2": "DEPENDS"} if ncomp == 2 else {"lib": "DEPENDS"}

        def read_components_from_file(self, v_file_path, blob):
            d = json.load(blob.data_stream)
            return {k: [int(x) for x in v.split(".")] for k, v in d.items()}
    return ParentRepo


COMPONENT_SHAPES = {
    "fork-merge": {1: [], 2: [1], 3: [1], 4: [2, 3]},
    "fork-merge-swapped": {1: [], 2: [1], 3: [1], 4: [3, 2]},
    "side-line": {1: [], 2: [1], 3: [2], 4: [1], 5: [3, 4]},
}


def run_component_case(m, cmatch: Set[int], pshape_name: str, pins: Dict[int, int], ptags: Set[int], pmatch: Set[int], ncomp: int = 1, double_top: bool = False) -> None:
    """component: `m` = number of commits of a linear history, or the name of a component shape; commit i carries build 2000+i;
    pins[c] = component commit pinned by parent commit c; 'contains' = reachability in the component history"""
    import ak.ghist as G
    cshape = COMPONENT_SHAPES[m] if isinstance(m, str) else {i: ([i - 1] if i > 1 else []) for i in range(1, m + 1)}
    top = max(cshape)
    ctags: Dict[int, Any] = {c: f"build_{2000 + c}_release_7_1_success" for c in cshape}
    if double_top:
        # two builds were made from the newest component commit; parents pin the later one
        ctags[top] = (ctags[top], f"build_{2000 + top + 1}_release_7_1_success")
    comp = StubRepo("lib", cshape, {c: "BUG-1 fix" for c in cmatch}, ctags, {"master": top})
    # an optional second component with the same history (its builds get the same internal numbers as those of the first)
    comp2 = StubRepo("lib2", cshape, {c: "BUG-1 fix" for c in cmatch}, {c: f"build_{2000 + c}_release_7_1_success" for c in cshape}, {"master": top}) if ncomp == 2 else None
    creach = {c: reach(cshape, c) for c in cshape}
    pshape, pheads = PARENT_SHAPES[pshape_name]
    def pinned(c):
        return 2000 + pins[c] + (1 if (double_top and pins[c] == top) else 0)
    files = {c: {"DEPENDS": json.dumps({n: f"7.1.{pinned(c)}" for n in (["lib", "lib2"] if ncomp == 2 else ["lib"])})} for c in pshape}
    parent = StubRepo("app", pshape, {c: "BUG-1 app" for c in pmatch}, {c: f"build_{300 + c}_release_1_0_success" for c in ptags}, pheads, files=files)
    ParentRepo = _mk_parent_class(ncomp)
    what = (f"component {m!r} matching {sorted(cmatch)}; parent {pshape_name} pins {pins} tags {sorted(ptags)} own matching {sorted(pmatch)}" + (" components 2" if ncomp == 2 else "") + (" double-top" if double_top else ""))
    try:
        repos = {"app": ParentRepo("app", parent, "origin"), "lib": G.ProjectRepo("lib", comp, "origin")}
        if ncomp == 2:
            repos["lib2"] = G.ProjectRepo("lib2", comp2, "origin")
        coll = G.ReposCollection(repos)
        if coll.sorted_repos[-1] != "app" or sorted(coll.sorted_repos[:-1]) != sorted(r for r in repos if r != "app"):
            raise Violation(f"component-after-owner :: {what}: sorted_repos == {coll.sorted_repos}")
        data = dict(coll.make_reports_data("BUG-1 "))
    except Violation:
        raise
    except Exception as e:  # noqa
        raise Violation(f"raises :: {what}: {type(e).__name__}: {e}")
    app_rg = data["app"]
    # report-related component builds: every component commit is a build; the report-related ones are the matching commits
    # (a merge of two report-related lines is reported as a build as well)
    all_lib_builds = {}
    for cname in (["lib", "lib2"] if ncomp == 2 else ["lib"]):
        lib_builds = {}
        for rb in data[cname].branches:
            for rbuild in rb.get_rbuilds_list():
                if rbuild.rcommit is not None:
                    lib_builds[rbuild.rcommit.commit.cid] = rbuild
        extra = set(lib_builds) - set(cmatch)
        if not set(cmatch) <= set(lib_builds) or any(len(cshape[c]) < 2 for c in extra):
            raise Violation(f"component-builds :: {what}: report-related builds of {cname} at commits {sorted(lib_builds)}, expected {sorted(cmatch)} (+ merges)")
        all_lib_builds[cname] = lib_builds
    order = sorted(pheads, key=lambda b: (b == "master", b))
    R = {b: reach(pshape, pheads[b]) for b in order}
    app_by_name = {rb.branch_name: rb for rb in app_rg.branches}
    for bi, b in enumerate(order):
        lower: Set[int] = set()
        for lb in order[:bi]:
            lower |= R[lb]
        own_builds = sorted(c for c in R[b] if (c in ptags or c == pheads[b]) and c not in lower)
        path_builds = sorted(c for c in R[b] if (c in ptags or c == pheads[b]))
        anc = {c: reach(pshape, c) - {c} for c in path_builds}          # proper ancestors
        for cname, cb in [(cn, x) for cn in all_lib_builds for x in sorted(cmatch)]:
            lib_builds = all_lib_builds[cname]
            # the first builds of this branch whose pin contains the component build: builds containing it none of whose
            # ancestor builds contains it (exactly one on a linear history; parallel built sub-branches may give several)
            containing = [c for c in path_builds if cb in creach[pins[c]]]
            minimal = [c for c in containing if not any(c2 in anc[c] for c2 in containing)]
            got = [str(x[2]) for x in lib_builds[cb].included_at if x[0] == "app" and str(x[1]) == b]
            if any(c in lower for c in minimal):
                continue        # a first shipping build belongs to a lower-sorted branch: reporting for this branch is not specified
            names = ["8888.8888.8888" if (c == pheads[b] and c not in ptags) else f"1.0.{300 + c}" for c in minimal]
            if len(minimal) <= 1:
                ok = sorted(got) == sorted(names)
            else:
                ok = len(got) >= 1 and len(set(got)) == len(got) and set(got) <= set(names)
            if not ok:
                raise Violation(f"included-at :: {what}: build 7.1.{2000 + cb} of component {cname} is recorded as included at {got} in parent branch {b}, "
                                f"expected exactly {names}" + (" (any non-empty subset: parallel first builds)" if len(minimal) > 1 else ""))
        # a parent build whose pin moves across report-related component builds is reported even without own matching commit
        rb = app_by_name.get(b)
        reported = set()
        if rb is not None:
            for rbuild in rb.get_rbuilds_list():
                if rbuild.rcommit is not None:
                    reported.add(rbuild.rcommit.commit.cid)
        for c in path_builds:
            shipped: Set[int] = set()
            for c2 in path_builds:
                if c2 in anc[c]:
                    shipped |= creach[pins[c2]]
            crosses = any(cb in creach[pins[c]] and cb not in shipped for cb in cmatch)
            if crosses and c in own_builds and c not in reported:
                raise Violation(f"bump-not-reported :: {what}: parent build at commit {c} of branch {b} newly ships a report-related component build (pin {pins[c]}) but is not reported")


def _pin_assignments(pshape, m):
    """every assignment of component commits to parent commits in which the pinned version never loses history along a path"""
    ids = sorted(pshape)
    cshape = COMPONENT_SHAPES[m] if isinstance(m, str) else {i: ([i - 1] if i > 1 else []) for i in range(1, m + 1)}
    creach = {c: reach(cshape, c) for c in cshape}
    for combo in itertools.product(sorted(cshape), repeat=len(ids)):
        pins = dict(zip(ids, combo))
        if all(pins[p] in creach[pins[c]] for c in ids for p in pshape[c]):
            yield pins


def h_component(m: int, cm: int, shard=None) -> None:
    if "component" in shard:
        reject_unless(m == 0)
        ncommits = len(COMPONENT_SHAPES[shard["component"]])
    else:
        reject_unless(shard["m"][0] <= m <= shard["m"][1])
        ncommits = m
    reject_unless(1 <= cm < 2 ** 5 and cm < 2 ** ncommits)
    m, cm = realize(m), realize(cm)
    ncommits = len(COMPONENT_SHAPES[shard["component"]]) if "component" in shard else m
    cmatch = {i + 1 for i in range(ncommits) if (cm >> i) & 1}
    if "component" in shard:
        m = shard["component"]
    pshape, pheads = PARENT_SHAPES[shard["parent"]]
    with concrete():
        ids = sorted(pshape)
        from vf.xh import sweep_should_stop
        for pins in _pin_assignments(pshape, m):
            if sweep_should_stop():
                return
            for ptags in itertools.chain.from_iterable(itertools.combinations(ids, k) for k in range(len(ids) + 1)):
                # (a matching parent commit in the middle: a reported parent build that keeps the pin, between two builds that move it)
                for pmatch in ([set(), {ids[-1]}, {ids[0]}] + ([{ids[len(ids) // 2]}] if len(ids) > 2 else [])):
                    run_component_case(m, cmatch, shard["parent"], pins, set(ptags), pmatch, shard.get("ncomp", 1), shard.get("double_top", False))


def replay_h_component(record):
    import ast
    import re
    msg = record.get("message") or ""
    m = re.search(r"component (\S+) matching (\[.*?\]); parent (\S+) pins (\{.*?\}) tags (\[.*?\]) own matching (\[.*?\])", msg)
    if not m:
        return "cannot parse the failing case"
    try:
        run_component_case(ast.literal_eval(m.group(1)), set(ast.literal_eval(m.group(2))), m.group(3), ast.literal_eval(m.group(4)), set(ast.literal_eval(m.group(5))), set(ast.literal_eval(m.group(6))),
                           2 if " components 2" in msg else 1, " double-top" in msg)
    except Violation as e:
        return str(e)
    return None


def jobs(tier: str) -> List[Job]:
    t = tier == "thorough"
    js = []
    for n in (2, 3, 4):
        js.append(Job(__name__, "h_repo_order", shard={"n": n, "nperm": 6 if n < 4 else (8 if t else 3)}, budget_s=1500 if t else 110, label=f"repo-order:n{n}", must_exhaust=True))
    parents = ["linear1", "linear2", "linear3", "linear4", "release+master", "release+master2", "pmerge", "pmerge-swapped"] + (["linear5", "pmerge-tail"] if t else [])
    for p in parents:
        js.append(Job(__name__, "h_component", shard={"parent": p, "m": [2, 3] if (not t and p in ("linear4", "release+master2", "pmerge", "pmerge-swapped")) else ([2, 4] if not t else [2, 5])},
                      budget_s=3000 if t else 110, label=f"component:{p}", must_exhaust=not t))
    for p in (["linear2", "linear3"] if not t else ["linear2", "linear3", "release+master"]):
        js.append(Job(__name__, "h_component", shard={"parent": p, "m": [2, 3], "ncomp": 2}, budget_s=3000 if t else 110, label=f"two-components:{p}", must_exhaust=not t))
    for p in (["linear2", "linear3"] if not t else ["linear2", "linear3", "release+master"]):
        js.append(Job(__name__, "h_component", shard={"parent": p, "m": [2, 3], "double_top": True}, budget_s=3000 if t else 110, label=f"two-builds-on-one-commit:{p}", must_exhaust=not t))
    for comp in COMPONENT_SHAPES:
        for p in (["linear2", "linear3"] if not t else ["linear2", "linear3", "linear4", "release+master"]):
            js.append(Job(__name__, "h_component", shard={"parent": p, "component": comp}, budget_s=3000 if t else 110, label=f"component:{comp}:{p}", must_exhaust=not t))
    return js
