"""C10 - rendering is pure: colors never change layout and output has no memory (XH + adversarial id() environment).

Histories of rendering requests over long-lived printable objects (pretty-printer, table with enum columns, record
formatter, configuration report, console help) under colors configurations that are created and discarded during the
run are z3 choice variables.  `id()` as seen by ak.ppobj is an environment stub constrained only by CPython's contract
(unique among simultaneously live objects): it hands a new palette the id of a discarded one whenever that is allowed.
Counterexamples are replayed on real CPython (create/discard loops until the allocator reuses an address).
"""
from __future__ import annotations

import gc
import weakref
from typing import Any, Dict, List, Optional

from vf.core import Job
from vf.xh import Violation, concrete, realize, reject_unless

PROPERTY_ID = "C10"
FUNCTIONS = ["ak.color.PaletteUser._mk_palette", "ak.color._PaletteMeta.__call__", "ak.color.Palette._get_existing_palette", "ak.color.Palette._prepare_local_colors",
             "ak.color.Palette._store_palette_in_cache", "ak.color.ColorsConfig.add_new_items", "ak.color.ColorsConfig.put_into_cache", "ak.color.ColorsConfig.get_cached_obj",
             "ak.color.CompoundPalette.get_sub_palette", "ak.color.set_global_colors_config", "ak.ppobj.CHTextResult.__iter__", "ak.ppobj.CHTextResult.__str__",
             "ak.ppobj.PPEnumFieldType.make_desired_cell_ch_chunks", "ak.ppobj.PPEnumFieldType._make_text_cache_for_val", "ak.ppobj._PPTableImpl.gen_ch_lines",
             "ak.ppobj._PPTableImpl._make_table_line", "ak.ppobj.PPRecordFmt.__call__", "ak.ppobj.PrettyPrinter.__call__", "ak.color.ColorsConfig.gen_report_lines",
             "ak.hdoc.HCommand._make_help_text", "ak.ghist.GHistReport.gen_ch_lines"]
BOUNDS = {
    "quick": {"objects": "pretty-printer result, table with enum columns in every modifier (incl. unknown enum value and None), record formatter, configuration report, console help, git history report",
              "configurations": "4 configurations (default, A, B with symbolic 256-color codes, no_color) created and dropped between steps; explicit colors_conf and global configuration routes",
              "histories": "<= 3 rendering steps, each (object, configuration, no_color flag), every order; id() may reuse the id of any discarded palette"},
}
BOUNDS["thorough"] = dict(BOUNDS["quick"], histories=BOUNDS["quick"]["histories"].replace("<= 3", "<= 4"))
OUTSIDE = ["a console-help object (HCommand) that outlives a change of the global configuration (it resolves its palette at construction)", "objects outside the set", "custom palettes passed by the caller",
           "record formatters whose column widths are negotiated from the first record (fixed widths are used; PPRecordFmt needing truncation marks raises AttributeError: noted in DESIGN.md, outside the given properties)"]
STUBS = ["ak.ppobj.id shadowed by a function that may return the id of a discarded palette for a new one (CPython contract: ids are unique only among simultaneously live objects)"]
ASSUMPTIONS = ["reference SGR stripper (independent of CHText.strip_colors) defines 'escape sequences removed'"]


def classify(record) -> str:
    return (record.get("message") or "").split("::")[0].strip()[:60] or "c10"


def strip_sgr(s: str) -> str:
    out = []
    i = 0
    while i < len(s):
        if s[i] == "\033" and i + 1 < len(s) and s[i + 1] == "[":
            j = i + 2
            while j < len(s) and (s[j].isdigit() or s[j] in ";:"):
                j += 1
            if j < len(s) and s[j] == "m":
                i = j + 1
                continue
        out.append(s[i])
        i += 1
    return "".join(out)


# ---------------------------------------------------------------------------------------------------
# adversarial id()
# ---------------------------------------------------------------------------------------------------
class IdEnv:
    def __init__(self):
        self.assigned: Dict[int, int] = {}        # real id -> fake id, for live tracked objects
        self.refs: List[Any] = []                 # (weakref, fake id)
        self.next = 1000

    def __call__(self, obj):
        from ak.color import Palette
        if not isinstance(obj, Palette):
            return id(obj)
        rid = id(obj)
        for r, fid in self.refs:
            if r() is obj:
                return fid
        # a palette we have not seen: reuse the id of a dead one if there is any
        dead = [fid for r, fid in self.refs if r() is None]
        live = {fid for r, fid in self.refs if r() is not None}
        fid = next((d for d in dead if d not in live), None)
        if fid is None:
            self.next += 8
            fid = self.next
        self.refs = [(r, f) for r, f in self.refs if r() is not None]
        self.refs.append((weakref.ref(obj), fid))
        return fid


# ---------------------------------------------------------------------------------------------------
# objects
# ---------------------------------------------------------------------------------------------------
CONF_DICTS = [
    None,
    {"NUMBER": "RED", "ERROR": "GREEN:bold", "TABLE": {"BORDER": "BLUE"}, "KEYWORD": "g7", "NAME": "CYAN"},
    {"NUMBER": "%d", "ERROR": "%d/YELLOW", "TABLE": {"BORDER": "(1,2,3)", "WARN": "MAGENTA"}, "TEXT": "g20", "HDOC": {"ATTR": "%d"}},
]
RECORDS = [(1, "ann", 10), (22, "bob", 999), (333, "", 12345), (4, "dd", None)]
DATA = {"k": [1, 2.5, None, True, "s"], "a": {"x": "y" * 30, "n": -7}, "long": ["w" * 60 for _ in range(5)]}


def _mk_conf(ci: int, c1: int, c2: int, no_color=False):
    import ak.color as C
    d = CONF_DICTS[ci]
    if ci == 2:
        d = {"NUMBER": str(c1), "ERROR": f"{c2}/YELLOW", "TABLE": {"BORDER": "(1,2,3)", "WARN": "MAGENTA"}, "TEXT": "g20", "HDOC": {"ATTR": str(c1)}}
    conf = C.ColorsConfig(d, no_color=no_color)
    return conf


def _attach_twin(conf, ci, c1, c2):
    """the same configuration data with coloring switched off (for the configuration report)"""
    return _mk_conf(ci, c1, c2, no_color=True)


class World:
    """long-lived printable objects"""

    def __init__(self):
        from ak.ppobj import PPEnumFieldType, PPRecordFmt, PPTable, PrettyPrinter
        self.enum = PPEnumFieldType({10: "Active", 999: ("Error status", "name_warn")})
        self.table = PPTable(RECORDS, fmt="id,st,st/val,st/name!,name:2-4", fields=["id", "name", "st"], fields_types={"st": self.enum}, header="hdr", limits=(2, 1))
        self.recfmt = PPRecordFmt("id:3,st/full:16,st/val:5,name:4", fields=["id", "name", "st"], fields_types={"st": self.enum})
        self.pp = PrettyPrinter()
        self.ppj = PrettyPrinter(fmt_json=True)
        # git history report over a small stub repository (two release branches + master, built / not built / not merged parts)
        import ak.ghist as G
        from vf.props.c06 import StubRepo
        shape = {1: [], 2: [1], 3: [2], 4: [2], 5: [4]}
        repo = StubRepo("main", shape, {c: ("BUG-1 fix" if c in (2, 3, 5) else "other") for c in shape}, {2: "build_102_release_1_0_success"},
                        {"master": 5, "release/1.9": 3, "release/1.10": 4})
        coll = G.ReposCollection({"main": G.ProjectRepo("main", repo, "origin")})
        self.report = G.GHistReport(list(coll.make_reports_data("BUG-1 ")), G.ReportFormatter())

    def render(self, kind: int, conf, no_color: bool, via_global: bool, twin=None, ambient=None):
        """-> (text consumed whole, text consumed line by line).  `ambient`: the global configuration in force while a
        rendering with an explicit colors_conf is requested (the explicit configuration must win)"""
        import ak.color as C
        kw: Dict[str, Any] = {"no_color": no_color}
        if via_global:
            C.set_global_colors_config(conf)
        else:
            kw["colors_conf"] = conf
            if ambient is not None:
                C.set_global_colors_config(ambient)
        try:
            if kind in (0, 1, 2, 5):
                mk = {0: lambda: self.table.ch_text(**kw), 1: lambda: self.pp(DATA, **kw), 2: lambda: self.ppj(DATA, **kw), 5: lambda: self.report.ch_text(**kw)}[kind]
                whole = str(mk())
                by_line = "\n".join(str(l) for l in mk())
                collected = list(mk())              # all lines taken first, read afterwards
                if "\n".join(str(l) for l in collected) != by_line:
                    raise Violation(f"lines-collected :: object kind {kind}: the lines collected into a list first and read afterwards differ from the lines read one by one")
                return whole, by_line
            if kind == 3:
                out = "\n".join(str(self.recfmt(rec, **kw)) + " | " + str(self.recfmt(rec, **kw).ch_text()) for rec in RECORDS)
                return out, out
            if kind == 4:
                c2 = conf
                if no_color:
                    c2 = twin
                return c2.make_report(), "\n".join(c2.gen_report_lines())
            raise ValueError(kind)
        finally:
            if via_global or ambient is not None:
                C.set_global_colors_config(None)


    def start_lines(self, kind: int, conf, no_color: bool):
        """-> iterator over the lines of a rendering requested now (explicit configuration), or None for objects without lazy lines"""
        kw: Dict[str, Any] = {"no_color": no_color, "colors_conf": conf}
        if kind == 0:
            return iter(self.table.ch_text(**kw))
        if kind == 1:
            return iter(self.pp(DATA, **kw))
        if kind == 2:
            return iter(self.ppj(DATA, **kw))
        if kind == 5:
            return iter(self.report.ch_text(**kw))
        return None


N_KINDS = 6


def _run_history(steps, c1: int, c2: int, adversarial_id: bool) -> None:
    import ak.color as C
    import ak.ppobj as P
    C._GLOBAL_COLORS_CONF = None
    env = IdEnv()
    if adversarial_id:
        P.id = env
    try:
        world = World()
        log = []
        pending = None      # a result requested at the previous step, only its first line consumed so far

        def finish_pending(what_now):
            nonlocal pending
            if pending is None:
                return
            it, first, expected, step_then = pending
            pending = None
            got = "\n".join([first] + [str(l) for l in it])
            if got != expected:
                raise Violation(f"interleaved-lines :: {what_now}: the result of step {step_then} was requested again and consumed line by line, with the following step "
                                f"requested after its first line; the lines differ from the same result consumed whole:\n{got[:300]}")

        for (kind, ci, no_color, via_global) in steps:
            conf = _mk_conf(ci, c1, c2)
            twin = _mk_conf(ci, c1, c2, no_color=True)
            ambient = None if via_global else _mk_conf((ci + 1) % 3, c1, c2)      # a different global configuration is in force
            whole, by_line = world.render(kind, conf, no_color, via_global, twin, ambient)
            what = f"history {log + [(kind, ci, no_color, via_global)]} (codes {c1}, {c2})"
            log.append((kind, ci, no_color, via_global))
            # (3) whole == line by line
            if whole != by_line:
                raise Violation(f"lines-differ :: {what}: consuming the result line by line gives a different text than consuming it whole:\n{by_line[:300]}")
            # (2) no memory: same request on freshly constructed equivalent objects
            fresh_world = World()
            fresh_conf = _mk_conf(ci, c1, c2)
            fresh, _ = fresh_world.render(kind, fresh_conf, no_color, via_global, _mk_conf(ci, c1, c2, no_color=True), None if via_global else _mk_conf((ci + 1) % 3, c1, c2))
            if fresh != whole:
                raise Violation(f"memory :: {what}: output differs from the same request made with freshly constructed objects and configuration")
            # the configuration in force decides, not the route by which it is supplied (explicit colors_conf vs global configuration)
            other, _ = World().render(kind, _mk_conf(ci, c1, c2), no_color, not via_global, _mk_conf(ci, c1, c2, no_color=True),
                                      None if not via_global else _mk_conf((ci + 2) % 3, c1, c2))
            if other != whole:
                raise Violation(f"route-dependent :: {what}: the same configuration supplied {'explicitly' if via_global else 'as global configuration'} renders differently "
                                f"(rendering depends on something else than the configuration in force)")
            # (1) colors never change layout
            plain, _ = World().render(kind, _mk_conf(ci, c1, c2), True, via_global, _mk_conf(ci, c1, c2, no_color=True))
            if "\033" in plain:
                raise Violation(f"no-color-escape :: {what}: no_color rendering contains an escape character")
            if strip_sgr(whole) != plain:
                raise Violation(f"layout :: {what}: colored rendering with sequences removed differs from the no_color rendering")
            finish_pending(what)
            # request this step's result again (explicit configuration), take its first line only; the rest is consumed after the next step
            it = world.start_lines(kind, _mk_conf(ci, c1, c2), no_color)
            if it is not None:
                expected, _ = World().render(kind, _mk_conf(ci, c1, c2), no_color, False, _mk_conf(ci, c1, c2, no_color=True), None)
                try:
                    first = str(next(it))
                    pending = (it, first, expected, (kind, ci, no_color, via_global))
                except StopIteration:
                    pending = None
            del conf, fresh_conf, fresh_world
            gc.collect()
        finish_pending(f"history {log} (codes {c1}, {c2})")
    finally:
        if adversarial_id and "id" in P.__dict__:
            del P.id
        C._GLOBAL_COLORS_CONF = None


def h_history(k0: int, f0: int, c1: int, shard=None) -> None:
    """first step = choice variables (object kind k0, flags f0 = conf index * 4 + no_color * 2 + via_global, color code c1);
    the remaining steps of the history are swept natively over shard['tail_kinds'] x shard['tail_flags']"""
    import itertools
    n = shard["n"]
    reject_unless(0 <= k0 < N_KINDS and 0 <= f0 < 12 and c1 in (196, 21))
    if "k0" in shard:
        reject_unless(k0 == shard["k0"])
    k0, f0, c1 = realize(k0), realize(f0), realize(c1)
    tails = [(k, f) for k in shard.get("tail_kinds", list(range(N_KINDS))) for f in shard.get("tail_flags", list(range(12)))]
    with concrete():
        import random
        from vf.xh import sweep_should_stop
        rests = list(itertools.product(tails, repeat=n - 1))
        random.Random(k0 * 1000 + f0 * 10 + n).shuffle(rests)      # a sweep cut short by the budget covers a spread of tails, not a prefix
        for rest in rests:
            if sweep_should_stop():
                return
            seq = [(k0, f0)] + list(rest)
            steps = [(k, f // 4, bool((f // 2) % 2), bool(f % 2)) for k, f in seq]
            _run_history(steps, c1, 46, shard.get("adversarial_id", True))


def _steps_from_record(record):
    from vf.core import decode_args
    a = decode_args(record["args"])
    msg = record.get("message") or ""
    # the failing history is printed in the message: "history [(k, conf, no_color, via_global), ...]"
    import ast
    import re
    m = re.search(r"history (\[.*?\]) \(codes", msg)
    steps = ast.literal_eval(m.group(1)) if m else [(a["k0"], a["f0"] // 4, bool((a["f0"] // 2) % 2), bool(a["f0"] % 2))]
    return steps, a["c1"], 46


def replay_h_history(record) -> Optional[str]:
    """replay on real CPython ids: repeat the history in create/discard rounds until the allocator reuses an address"""
    steps, c1, c2 = _steps_from_record(record)
    last = None
    for rounds in range(200):
        try:
            _run_history(steps * (1 + rounds % 3), c1, c2, False)
        except Violation as e:
            return f"{e} [real id(), round {rounds}]"
        except Exception as e:  # noqa
            return f"{type(e).__name__}: {e} [real id(), round {rounds}]"
        last = rounds
    # CPython did not happen to reuse the address within the rounds: replay under the id() environment stub, which only
    # uses what CPython's contract allows (an id may be reused as soon as its object is gone)
    try:
        _run_history(steps, c1, c2, True)
    except Violation as e:
        return f"{e} [reproduced with id() reusing the id of a discarded palette (allowed by CPython's contract); real allocator did not reuse the address in {last + 1} rounds]"
    return None


def h_help_and_ghist(ci: int, shard=None) -> None:
    """console help and git-history report: layout independent of colors (rendered under each configuration)"""
    reject_unless(0 <= ci < 3)
    ci = realize(ci)
    with concrete():
        import ak.color as C
        from ak.hdoc import HCommand, h_doc

        @h_doc
        class Thing:
            """A thing.

            Long description of the thing.
            """

            @h_doc
            def act(self, x, y=3):
                """Do the act.

                #tag1 #tag2
                """

            @h_doc
            def other(self):
                """Another one."""
        outs = []
        for conf in (_mk_conf(ci, 196, 46), C.ColorsConfig(None, no_color=True)):
            C.set_global_colors_config(conf)
            try:
                for lvl in (1, 2):
                    h = HCommand(lvl)
                    outs.append((h._make_help_text(Thing), h._make_help_text(Thing()), h._make_help_text(Thing.act)))
            finally:
                C.set_global_colors_config(None)
        colored, plain = outs[:2], outs[2:]
        for cset, pset in zip(colored, plain):
            for c, p in zip(cset, pset):
                if "\033" in p:
                    raise Violation("no-color-escape :: console help under a no_color configuration contains an escape character")
                if strip_sgr(c) != p:
                    raise Violation(f"layout :: console help: colored text with sequences removed differs from the no_color text:\n{strip_sgr(c)[:200]}\n---\n{p[:200]}")


def h_table_refmt(fi: int, nc: bool, shard=None) -> None:
    """the same table re-formatted after a rendering renders as a fresh table given the same format (nothing of the earlier
    rendering - detected widths, skipped lines - may survive in the new format)"""
    from ak.ppobj import PPEnumFieldType, PPTable
    fmts = [";1:0", ";*", "id,name:2-9", ";2:1", "name!,id;1:1", "id:1-3,st/name;0:2", ""]
    reject_unless(0 <= fi < len(fmts))
    fi, nc = realize(fi), realize(nc)
    with concrete():
        recs = RECORDS + [(77777, "a very long name indeed", 10)]

        def mk():
            return PPTable(recs, fmt="id,st,name:2-30", fields=["id", "name", "st"], fields_types={"st": PPEnumFieldType({10: "Active", 999: ("Error status", "name_warn")})},
                           limits=(None, None))
        used, fresh = mk(), mk()
        str(used.ch_text(no_color=nc))          # rendered once (all records: the widest cell is seen)
        used.fmt = fmts[fi]
        fresh.fmt = fmts[fi]
        a, b = str(used.ch_text(no_color=nc)), str(fresh.ch_text(no_color=nc))
        if a != b:
            raise Violation(f"memory :: table rendered, then given fmt {fmts[fi]!r}: renders differently from a fresh table given the same fmt:\n{a[:400]}\n---\n{b[:400]}")
        # a second table that takes over the format object of a rendered one
        try:
            other_used = PPTable(recs[:2], fmt_obj=used.fmt)
            other_fresh = PPTable(recs[:2], fmt_obj=mk().fmt if not fmts[fi] else fresh.fmt)
        except TypeError:
            return
        a, b = str(other_used.ch_text(no_color=nc)), str(other_fresh.ch_text(no_color=nc))
        if a != b and not fmts[fi]:
            raise Violation(f"memory :: a table built over the format object of a rendered table renders differently from one built over the format object of an unrendered table:\n{a[:300]}\n---\n{b[:300]}")


def jobs(tier: str) -> List[Job]:
    t = tier == "thorough"
    js = []
    js.append(Job(__name__, "h_history", shard={"n": 1}, budget_s=600 if t else 110, label="history:n1", must_exhaust=True))
    for k0 in range(N_KINDS):
        js.append(Job(__name__, "h_history", shard={"n": 2, "k0": k0}, budget_s=1200 if t else 110, label=f"history:n2:first={k0}", must_exhaust=True))
    few_flags = [0, 4, 6, 8, 9]
    for k0 in (range(N_KINDS) if t else (0, 3)):
        js.append(Job(__name__, "h_history", shard={"n": 3, "k0": k0, "tail_kinds": [0, 3] if not t else list(range(N_KINDS)), "tail_flags": [0, 4, 6, 9] if not t else list(range(12))},
                      budget_s=3000 if t else 110, label=f"history:n3:first={k0}"))
    if t:
        js.append(Job(__name__, "h_history", shard={"n": 4, "k0": 0, "tail_kinds": [0, 3], "tail_flags": few_flags}, budget_s=3000, label="history:n4:first=0"))
    js.append(Job(__name__, "h_table_refmt", shard={}, budget_s=100, label="table-reformatted-after-rendering", must_exhaust=True))
    js.append(Job(__name__, "h_help_and_ghist", shard={}, budget_s=100, label="console-help", must_exhaust=True))
    return js
