"""check <ID> [--tier quick|thorough] [--replay <file>] [--workers N]"""
import argparse
import importlib
import json
import os
import sys
import time

from vf import core


def main(argv=None):
    ap = argparse.ArgumentParser()
    ap.add_argument("prop")
    ap.add_argument("--tier", default=os.environ.get("VERIF_TIER", "quick"), choices=["quick", "thorough"])
    ap.add_argument("--replay")
    ap.add_argument("--workers", type=int, default=int(os.environ.get("VERIF_WORKERS", "16")))
    ap.add_argument("--only", help="run only jobs whose name contains this text (developer aid; evidence is still written)")
    a = ap.parse_args(argv)
    pid = a.prop.upper()
    try:
        seed = int(os.environ.get("VERIF_SEED", "0"))
    except ValueError:
        seed = 0
    if a.replay:
        rep = core.replay_in_fresh_interpreter(a.replay)
        print(json.dumps(rep, indent=1))
        if rep.get("reproduced"):
            print(f"VIOLATION property={pid} replay={a.replay}")
            return core.EXIT_VIOLATION
        return core.EXIT_HARNESS if rep.get("crashed") else core.EXIT_OK
    t0 = time.time()
    prop = importlib.import_module(f"vf.props.{pid.lower()}")
    jobs = prop.jobs(a.tier)
    if a.only:
        jobs = [j for j in jobs if a.only in j.name()]
    # keep the worst-case wall time of a tier within its target (jobs that exhaust finish earlier anyway):
    # budgets are scaled down proportionally when the greedy 16-worker schedule of the full budgets would exceed it
    target_s = 60.0 * float(os.environ.get("VERIF_WALL_MIN", "30" if a.tier == "thorough" else "4"))
    xh_jobs = [j for j in jobs if j.kind == "xh"]
    if xh_jobs:
        loads = [0.0] * max(1, min(a.workers, 16))
        for b in sorted((j.budget_s for j in xh_jobs), reverse=True):
            k = loads.index(min(loads))
            loads[k] += b
        worst = max(loads)
        if worst > target_s:
            f = target_s / worst
            for j in xh_jobs:
                j.budget_s = max(45.0, j.budget_s * f)
    if seed:
        import random
        random.Random(seed).shuffle(jobs)  # order only; the explored space does not depend on the seed
    known = list(core.known_keys_for(pid).keys())
    results = core.run_jobs(jobs, known, workers=a.workers)
    extra = prop.extra_coverage(a.tier, results) if hasattr(prop, "extra_coverage") else None
    return core.finish(prop, a.tier, seed, results, t0, extra)


if __name__ == "__main__":
    sys.exit(main())
